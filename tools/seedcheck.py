#!/usr/bin/env python3
"""Confirm a deliberately property-breaking change and run checks against it.

  seedcheck.py <srcdir> <id> <pkgdir> <check>[,<check>...] [--no-suite] [--tier quick]

<srcdir> holds patch.diff, demo_test.go, meta.json.  Everything happens in a scratch git worktree of
/repo under /tmp (removed afterwards); /repo itself is never touched.  Steps: the demonstration passes
at HEAD, fails with the patch; the patched tree builds and its existing tests pass; then each listed
/verif check is run against the patched tree (VERIF_REPO) with its output under /tmp (VERIF_OUT).
The result is written to /verif/seeded/<id>/result.json next to copies of the three files.
"""
import json, os, re, shutil, subprocess, sys, time

ENV = dict(os.environ, GOFLAGS="-mod=mod", GOPROXY="off", GOSUMDB="off")
VERIF = os.path.dirname(os.path.dirname(os.path.abspath(__file__)))


def sh(cmd, cwd=None, env=ENV, timeout=3600):
    r = subprocess.run(cmd, cwd=cwd, env=env, shell=isinstance(cmd, str), capture_output=True, text=True, errors="replace", timeout=timeout)
    return r.returncode, r.stdout + r.stderr


def main():
    args = [a for a in sys.argv[1:] if not a.startswith("--")]
    src, sid, pkgdir, checks = args[0], args[1], args[2], args[3].split(",") if len(args) > 3 and args[3] else []
    tier = "quick"
    if "--tier" in sys.argv:
        tier = sys.argv[sys.argv.index("--tier") + 1]
    wt = "/tmp/sc-" + sid
    out = "/tmp/sc-" + sid + "-out"
    sh(["git", "-C", "/repo", "worktree", "remove", "--force", wt])
    shutil.rmtree(out, ignore_errors=True)
    rc, o = sh(["git", "-C", "/repo", "worktree", "add", "--detach", wt, "HEAD"])
    if rc != 0:
        print(o); sys.exit(2)
    res = dict(id=sid, repo_head=sh(["git", "-C", "/repo", "rev-parse", "HEAD"])[1].strip(), checks={})
    try:
        demo = open(os.path.join(src, "demo_test.go")).read()
        tests = re.findall(r"^func (Test\w+)\(", demo, re.M)
        runre = "^(" + "|".join(tests) + ")$"
        dst = os.path.join(wt, pkgdir, "zz_seeded_demo_test.go")
        if "--no-demo" not in sys.argv:
            shutil.copy(os.path.join(src, "demo_test.go"), dst)
            rc, o = sh(["go", "test", "-vet=off", "-count=1", "-run", runre, "./" + pkgdir + "/"], cwd=wt)
            res["demo_at_head"] = "pass" if rc == 0 else "FAIL"
            if rc != 0:
                res["demo_at_head_out"] = o[-1500:]
        rc, o = sh(["git", "apply", os.path.abspath(os.path.join(src, "patch.diff"))], cwd=wt)
        if rc != 0:
            res["apply"] = o
            raise SystemExit("patch does not apply: " + o)
        if "--no-demo" not in sys.argv:
            rc, o = sh(["go", "test", "-vet=off", "-count=1", "-run", runre, "./" + pkgdir + "/"], cwd=wt)
            res["demo_with_patch"] = "fail" if rc != 0 else "PASS"
            res["demo_with_patch_out"] = "\n".join([l for l in o.splitlines() if "---" in l or "rror" in l or "FAIL" in l][:12])
            os.remove(dst)
        rc, o = sh("go build ./... && go build -tags verif ./gemmill/... ./chain/...", cwd=wt)
        res["build"] = "ok" if rc == 0 else o[-1500:]
        if "--no-suite" not in sys.argv:
            t0 = time.time()
            rc, o = sh("go test -vet=off -count=1 -timeout 25m ./... 2>&1 | grep -v '^ok\\|no test files'", cwd=wt)
            bad = [l for l in o.splitlines() if l.startswith("FAIL") or l.startswith("--- FAIL")]
            bad = [l for l in bad if "flowrate" not in l and "eth/crypto/ecies" not in l  # ecies fails at HEAD (flag parsing), not in the baseline list
                    and l.strip() != "FAIL" and "TestWriter" not in l and "TestReader" not in l]
            # packages with timing tests fail under the load of parallel checks: run each failing package once more, alone
            still = []
            for l in bad:
                if l.startswith("FAIL\t"):
                    pkg = l.split("\t")[1].replace("github.com/dappledger/AnnChain", ".")
                    rc2, o2 = sh(["go", "test", "-vet=off", "-count=1", pkg], cwd=wt)
                    if rc2 != 0:
                        still.append(l)
            if bad and not still:
                res["suite_note"] = "failed under load, passed alone: " + "; ".join(l for l in bad if l.startswith("FAIL\t"))
                bad = []
            res["suite"] = "ok" if not bad else bad[:10]
            res["suite_s"] = int(time.time() - t0)
        for c in checks:
            t0 = time.time()
            env = dict(ENV, VERIF_REPO=wt, VERIF_OUTDIR=out, VERIF_SCRATCH="/var/tmp/verif-scratch-seed-" + sid)
            cid, _, seed = c.partition("@")
            cmd = [os.path.join(VERIF, "verif"), "check", cid, tier]
            if seed:
                cmd += ["--seed", seed]
            rc, o = sh(cmd, env=env, timeout=7200)
            lines = [l for l in o.splitlines() if l.startswith("VIOLATION") or l.startswith("KNOWN-FINDING")]
            viol = [l for l in lines if l.startswith("VIOLATION")]
            detail = []
            for l in viol[:3]:
                m = re.search(r"replay=(\S+)", l)
                if m and os.path.exists(m.group(1)):
                    try:
                        j = json.load(open(m.group(1)))
                        v = j.get("violation") or {}
                        detail.append(dict(oracle=v.get("oracle"), key=v.get("key"), detail=str(v.get("detail"))[:400], actions=len(j.get("actions") or [])))
                    except Exception as e:
                        detail.append(str(e))
            res["checks"][c] = dict(exit=rc, violations=len(viol), first=viol[:3], detail=detail, seconds=int(time.time() - t0),
                                    tail=o[-600:] if rc not in (0, 1) else "")
            shutil.rmtree("/var/tmp/verif-scratch-seed-" + sid, ignore_errors=True)
    finally:
        sh(["git", "-C", "/repo", "worktree", "remove", "--force", wt])
        shutil.rmtree(out, ignore_errors=True)
    d = os.path.join(VERIF, "seeded", sid)
    os.makedirs(d, exist_ok=True)
    for f in ("patch.diff", "demo_test.go", "meta.json"):
        if os.path.exists(os.path.join(src, f)) and os.path.abspath(src) != os.path.abspath(d):
            shutil.copy(os.path.join(src, f), os.path.join(d, f))
    prev = {}
    rp = os.path.join(d, "result.json")
    if os.path.exists(rp):
        prev = json.load(open(rp))
        pc = prev.get("checks", {})
        pc.update(res["checks"])
        for k in ("demo_at_head", "demo_with_patch", "demo_with_patch_out", "suite", "build", "suite_s"):
            if k not in res and k in prev:
                res[k] = prev[k]
        res["checks"] = pc
    res["demo_pkg"] = pkgdir
    json.dump(res, open(rp, "w"), indent=1)
    print(json.dumps(res, indent=1))


if __name__ == "__main__":
    main()

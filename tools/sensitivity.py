#!/usr/bin/env python3
"""Write /verif/sensitivity.md from /verif/seeded/*/{meta.json,result.json}."""
import json, os, glob

VERIF = os.path.dirname(os.path.dirname(os.path.abspath(__file__)))
rows = []
for d in sorted(glob.glob(os.path.join(VERIF, "seeded", "*"))):
    rp, mp = os.path.join(d, "result.json"), os.path.join(d, "meta.json")
    if not os.path.exists(rp):
        continue
    r = json.load(open(rp))
    m = json.load(open(mp)) if os.path.exists(mp) else {}
    rows.append((os.path.basename(d), r, m))

out = ["# Sensitivity: deliberately property-breaking changes and the checks run against them", "",
       "Every change below was produced by a fresh sub-agent that saw only the text of one property and a scratch",
       "worktree of the repository (nothing from /verif). Each compiles, passes the repository's existing tests, and",
       "comes with a demonstration that fails with the change and passes without it; all of that was re-confirmed by",
       "`tools/seedcheck.py` in a scratch worktree (`confirmed` column: demo at HEAD / demo with patch / build / suite).",
       "The checks were then run against the patched tree (`VERIF_REPO=<worktree>`); /repo itself is never patched.",
       "`caught` = the check exited 1 with a VIOLATION line and a replay file; `missed` = exit 0.", "",
       "| change | what it breaks (short) | confirmed | check: outcome (oracle/key, minimised actions) |", "|---|---|---|---|"]
for name, r, m in rows:
    what = (m.get("what_it_breaks") or "").replace("\n", " ").replace("|", "/")
    if len(what) > 260:
        what = what[:257] + "..."
    conf = "%s / %s / %s / %s" % (r.get("demo_at_head", "?"), r.get("demo_with_patch", "?"), "ok" if r.get("build") == "ok" else "FAIL", "ok" if r.get("suite") == "ok" else str(r.get("suite")))
    cs = []
    for c, x in sorted(r.get("checks", {}).items()):
        if x["exit"] == 1:
            det = "; ".join("%s/%s, %s actions" % (d.get("oracle"), d.get("key"), d.get("actions")) for d in x["detail"][:2] if isinstance(d, dict))
            cs.append("**%s: caught** (%s)" % (c, det))
        elif x["exit"] == 0:
            cs.append("%s: missed" % c)
        else:
            cs.append("%s: exit %s (infrastructure)" % (c, x["exit"]))
    out.append("| %s | %s | %s | %s |" % (name, what, conf, "<br>".join(cs) or "not run"))
caught = sum(1 for _, r, _ in rows if any(x["exit"] == 1 for x in r.get("checks", {}).values()))
out += ["", "%d of %d changes are caught by at least one registered check (quick tier unless noted in the result file)." % (caught, len(rows)), ""]
notes = os.path.join(VERIF, "seeded", "NOTES.md")
if os.path.exists(notes):
    out.append(open(notes).read())
open(os.path.join(VERIF, "sensitivity.md"), "w").write("\n".join(out))
print("wrote sensitivity.md: %d changes, %d caught" % (len(rows), caught))

// instr rewrites a scratch copy of the repository so that the simulator owns
// goroutine creation (level 0) and, for selected packages, lock acquisition and
// scheduling points (level 1). It never touches /repo itself.
package main

import (
	"bytes"
	"flag"
	"fmt"
	"go/ast"
	"go/format"
	"go/parser"
	"go/token"
	"os"
	"path/filepath"
	"strings"
)

const hookImport = "github.com/dappledger/AnnChain/simhook"

var builtins = map[string]bool{"close": true, "panic": true, "print": true, "println": true, "delete": true, "copy": true, "recover": true}

type stats struct{ files, gos, locks, yields int }

func main() {
	root := flag.String("root", "", "root of the scratch copy")
	l0 := flag.String("l0", "", "comma separated dirs (relative to root) for go-statement wrapping, recursive")
	l1 := flag.String("l1", "", "comma separated dirs (relative to root, NOT recursive) for lock/yield instrumentation")
	hookSrc := flag.String("hooksrc", "", "directory holding simhook.go to copy into root/simhook")
	flag.Parse()
	if *root == "" {
		fmt.Fprintln(os.Stderr, "instr: -root required")
		os.Exit(2)
	}
	if *hookSrc != "" {
		b, err := os.ReadFile(filepath.Join(*hookSrc, "simhook.go"))
		check(err)
		check(os.MkdirAll(filepath.Join(*root, "simhook"), 0755))
		check(os.WriteFile(filepath.Join(*root, "simhook", "simhook.go"), b, 0644))
	}
	l1set := map[string]bool{}
	for _, d := range split(*l1) {
		l1set[filepath.Clean(filepath.Join(*root, d))] = true
	}
	var st stats
	seen := map[string]bool{}
	for _, d := range split(*l0) {
		filepath.Walk(filepath.Join(*root, d), func(p string, info os.FileInfo, err error) error {
			if err != nil || info.IsDir() || !strings.HasSuffix(p, ".go") || strings.HasSuffix(p, "_test.go") {
				return nil
			}
			if seen[p] {
				return nil
			}
			seen[p] = true
			processFile(p, l1set[filepath.Dir(p)], &st)
			return nil
		})
	}
	for d := range l1set {
		ents, _ := os.ReadDir(d)
		for _, e := range ents {
			p := filepath.Join(d, e.Name())
			if e.IsDir() || !strings.HasSuffix(p, ".go") || strings.HasSuffix(p, "_test.go") || seen[p] {
				continue
			}
			seen[p] = true
			processFile(p, true, &st)
		}
	}
	fmt.Printf("instr: files=%d go_statements=%d locks=%d yields=%d\n", st.files, st.gos, st.locks, st.yields)
}

func split(s string) []string {
	var r []string
	for _, x := range strings.Split(s, ",") {
		if x = strings.TrimSpace(x); x != "" {
			r = append(r, x)
		}
	}
	return r
}

func check(err error) {
	if err != nil {
		fmt.Fprintln(os.Stderr, "instr:", err)
		os.Exit(2)
	}
}

func processFile(path string, level1 bool, st *stats) {
	fset := token.NewFileSet()
	f, err := parser.ParseFile(fset, path, nil, parser.ParseComments)
	if err != nil {
		return // not our business; the compiler will complain
	}
	for _, im := range f.Imports {
		if im.Path.Value == `"C"` {
			return
		}
	}
	if f.Name.Name == "simhook" {
		return
	}
	rel := filepath.Base(filepath.Dir(path)) + "/" + filepath.Base(path)
	changed := false
	var rewriteList func(list []ast.Stmt) []ast.Stmt
	rewriteStmt := func(s ast.Stmt) ast.Stmt {
		switch g := s.(type) {
		case *ast.GoStmt:
			st.gos++
			changed = true
			site := fmt.Sprintf("%s:%d", rel, fset.Position(g.Pos()).Line)
			return wrapGo(g, site)
		case *ast.ExprStmt:
			if !level1 {
				return s
			}
			if call, ok := g.X.(*ast.CallExpr); ok && len(call.Args) == 0 {
				if sel, ok := call.Fun.(*ast.SelectorExpr); ok {
					try := ""
					switch sel.Sel.Name {
					case "Lock":
						try = "TryLock"
					case "RLock":
						try = "TryRLock"
					}
					if try != "" && !isPkgIdent(sel.X) {
						st.locks++
						changed = true
						site := fmt.Sprintf("%s:%d", rel, fset.Position(g.Pos()).Line)
						return &ast.ExprStmt{X: &ast.CallExpr{
							Fun: &ast.SelectorExpr{X: ast.NewIdent("simhook"), Sel: ast.NewIdent("LockF")},
							Args: []ast.Expr{
								&ast.BasicLit{Kind: token.STRING, Value: fmt.Sprintf("%q", site)},
								&ast.SelectorExpr{X: sel.X, Sel: ast.NewIdent(try)},
								&ast.SelectorExpr{X: sel.X, Sel: ast.NewIdent(sel.Sel.Name)},
							}}}
					}
				}
			}
		}
		return s
	}
	rewriteList = func(list []ast.Stmt) []ast.Stmt {
		for i, s := range list {
			if ls, ok := s.(*ast.LabeledStmt); ok {
				ls.Stmt = rewriteStmt(ls.Stmt)
				continue
			}
			list[i] = rewriteStmt(s)
		}
		return list
	}
	ast.Inspect(f, func(n ast.Node) bool {
		switch b := n.(type) {
		case *ast.BlockStmt:
			b.List = rewriteList(b.List)
		case *ast.CaseClause:
			b.Body = rewriteList(b.Body)
		case *ast.CommClause:
			b.Body = rewriteList(b.Body)
		}
		return true
	})
	if !changed {
		return
	}
	addImport(f)
	var buf bytes.Buffer
	check(format.Node(&buf, fset, f))
	check(os.WriteFile(path, buf.Bytes(), 0644))
	st.files++
}

func isPkgIdent(e ast.Expr) bool { return false }

func inline(e ast.Expr) bool {
	switch x := e.(type) {
	case *ast.BasicLit:
		return true
	case *ast.Ident:
		return x.Name == "nil" || x.Name == "true" || x.Name == "false"
	case *ast.UnaryExpr:
		return inline(x.X)
	case *ast.ParenExpr:
		return inline(x.X)
	}
	return false
}

func wrapGo(g *ast.GoStmt, site string) ast.Stmt {
	call := g.Call
	var pre []ast.Stmt
	fun := call.Fun
	if id, ok := fun.(*ast.Ident); !(ok && builtins[id.Name]) {
		pre = append(pre, &ast.AssignStmt{Lhs: []ast.Expr{ast.NewIdent("__sf")}, Tok: token.DEFINE, Rhs: []ast.Expr{fun}})
		fun = ast.NewIdent("__sf")
	}
	args := make([]ast.Expr, len(call.Args))
	for i, a := range call.Args {
		if inline(a) {
			args[i] = a
			continue
		}
		name := fmt.Sprintf("__sa%d", i)
		pre = append(pre, &ast.AssignStmt{Lhs: []ast.Expr{ast.NewIdent(name)}, Tok: token.DEFINE, Rhs: []ast.Expr{a}})
		args[i] = ast.NewIdent(name)
	}
	inner := &ast.CallExpr{Fun: fun, Args: args, Ellipsis: call.Ellipsis}
	if call.Ellipsis == token.NoPos {
		inner.Ellipsis = token.NoPos
	} else {
		inner.Ellipsis = 1
	}
	lit := &ast.FuncLit{Type: &ast.FuncType{Params: &ast.FieldList{}}, Body: &ast.BlockStmt{List: []ast.Stmt{&ast.ExprStmt{X: inner}}}}
	hook := &ast.ExprStmt{X: &ast.CallExpr{
		Fun:  &ast.SelectorExpr{X: ast.NewIdent("simhook"), Sel: ast.NewIdent("Go")},
		Args: []ast.Expr{&ast.BasicLit{Kind: token.STRING, Value: fmt.Sprintf("%q", site)}, lit},
	}}
	return &ast.BlockStmt{List: append(pre, hook)}
}

func addImport(f *ast.File) {
	for _, im := range f.Imports {
		if im.Path.Value == fmt.Sprintf("%q", hookImport) {
			return
		}
	}
	spec := &ast.ImportSpec{Name: ast.NewIdent("simhook"), Path: &ast.BasicLit{Kind: token.STRING, Value: fmt.Sprintf("%q", hookImport)}}
	decl := &ast.GenDecl{Tok: token.IMPORT, Specs: []ast.Spec{spec}}
	f.Decls = append([]ast.Decl{decl}, f.Decls...)
	f.Imports = append(f.Imports, spec)
}

// Package simhook is copied by the instrumenter into the scratch copy of the
// repository (import path github.com/dappledger/AnnChain/simhook). The
// instrumented sources call it instead of `go`, and (level 1) before
// synchronisation operations. With no hook installed every function behaves
// exactly like the statement it replaced.
package simhook

import "time"

// GoHook, when set, receives every goroutine the instrumented code starts.
var GoHook func(site string, f func())

// YieldHook, when set, is called before lock acquisitions and channel
// operations of level-1 instrumented packages.
var YieldHook func(site string)

func Go(site string, f func()) {
	if h := GoHook; h != nil {
		h(site, f)
		return
	}
	go f()
}

func Yield(site string) {
	if h := YieldHook; h != nil {
		h(site)
	}
}

// LockF acquires a lock without ever blocking non-durably (a goroutine waiting inside
// sync.Mutex.Lock keeps testing/synctest from reaching quiescence for ever if the holder never
// releases - which is what happens to the surviving goroutines of a simulated node whose
// process has died while one of them held the lock). With a hook installed the lock is polled
// with TryLock and short sleeps on the simulated clock in between, and the hook runs before
// every attempt: it parks the goroutines of dead incarnations. Without a hook it just locks.
func LockF(site string, try func() bool, lock func()) {
	h := YieldHook
	if h == nil {
		lock()
		return
	}
	d := time.Microsecond
	for {
		h(site)
		if try() {
			return
		}
		time.Sleep(d)
		if d < time.Millisecond {
			d *= 2
		}
	}
}

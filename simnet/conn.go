// Package simnet: in-memory connections owned by the simulator. A Conn is one end of a link; what
// one end writes reaches the other end only through the link's relay, which the harness drives
// (pass, hold, cut into units, tamper, drop, duplicate, reorder, replay, close). Everything blocks
// on channels, so a goroutine waiting here is durably blocked for testing/synctest.
package simnet

import (
	"errors"
	"io"
	"net"
	"sync"
	"time"
)

var ErrDeadline = errors.New("simnet: deadline exceeded")

type addr string

func (a addr) Network() string { return "tcp" }
func (a addr) String() string  { return string(a) }

// queue is an unbounded byte queue with blocking read.
type queue struct {
	mu     sync.Mutex
	buf    []byte
	closed bool
	wake   chan struct{} // closed and replaced whenever something changes
}

func newQueue() *queue { return &queue{wake: make(chan struct{})} }

func (q *queue) signal() {
	close(q.wake)
	q.wake = make(chan struct{})
}

func (q *queue) write(p []byte) error {
	q.mu.Lock()
	defer q.mu.Unlock()
	if q.closed {
		return io.ErrClosedPipe
	}
	q.buf = append(q.buf, p...)
	q.signal()
	return nil
}

func (q *queue) close() {
	q.mu.Lock()
	if !q.closed {
		q.closed = true
		q.signal()
	}
	q.mu.Unlock()
}

// read blocks until at least one byte, end of stream, or the deadline channel fires.
func (q *queue) read(p []byte, deadline <-chan time.Time) (int, error) {
	for {
		q.mu.Lock()
		if len(q.buf) > 0 {
			n := copy(p, q.buf)
			q.buf = q.buf[n:]
			q.mu.Unlock()
			return n, nil
		}
		if q.closed {
			q.mu.Unlock()
			return 0, io.EOF
		}
		w := q.wake
		q.mu.Unlock()
		select {
		case <-w:
		case <-deadline:
			return 0, ErrDeadline
		}
	}
}

// Conn implements net.Conn.
type Conn struct {
	name       string
	peer       string
	in         *queue // what this end reads
	out        *queue // what this end writes (consumed by the relay)
	mu         sync.Mutex
	readDL     time.Time
	wrote      int
	closedOnce sync.Once
}

func (c *Conn) Read(p []byte) (int, error) {
	if len(p) == 0 {
		return 0, nil
	}
	c.mu.Lock()
	dl := c.readDL
	c.mu.Unlock()
	var ch <-chan time.Time
	if !dl.IsZero() {
		d := time.Until(dl)
		if d <= 0 {
			return 0, ErrDeadline
		}
		t := time.NewTimer(d)
		defer t.Stop()
		ch = t.C
	}
	return c.in.read(p, ch)
}

func (c *Conn) Write(p []byte) (int, error) {
	if err := c.out.write(p); err != nil {
		return 0, err
	}
	c.mu.Lock()
	c.wrote += len(p)
	c.mu.Unlock()
	return len(p), nil
}

func (c *Conn) Close() error {
	c.closedOnce.Do(func() {
		c.out.close()
		c.in.close()
	})
	return nil
}

func (c *Conn) LocalAddr() net.Addr  { return addr(c.name) }
func (c *Conn) RemoteAddr() net.Addr { return addr(c.peer) }
func (c *Conn) SetDeadline(t time.Time) error {
	c.mu.Lock()
	c.readDL = t
	c.mu.Unlock()
	return nil
}
func (c *Conn) SetReadDeadline(t time.Time) error  { return c.SetDeadline(t) }
func (c *Conn) SetWriteDeadline(t time.Time) error { return nil }

// Link is a bidirectional connection with a relay in the middle.
type Link struct {
	A, B *Conn
	ab   *Dir // bytes written by A on their way to B
	ba   *Dir
}

// Dir is one direction of a link. Units are cut from the byte stream by Cut (the relay asks how long
// the next unit is, given its index); each complete unit is handed to Op, which returns what is
// forwarded in its place (nil drops it) and whether the direction is closed afterwards.
type Dir struct {
	src, dst *queue
	Cut      func(index int) int
	Op       func(index int, unit []byte) (forward [][]byte, closeAfter bool)
	Units    int
	done     chan struct{}
}

// NewLink creates both ends and starts the two relay goroutines with start (so that the caller
// decides which registry owns them).
func NewLink(nameA, nameB string, start func(f func())) *Link {
	aOut, bOut := newQueue(), newQueue()
	aIn, bIn := newQueue(), newQueue()
	l := &Link{
		A:  &Conn{name: nameA, peer: nameB, in: aIn, out: aOut},
		B:  &Conn{name: nameB, peer: nameA, in: bIn, out: bOut},
		ab: &Dir{src: aOut, dst: bIn, done: make(chan struct{})},
		ba: &Dir{src: bOut, dst: aIn, done: make(chan struct{})},
	}
	start(l.ab.run)
	start(l.ba.run)
	return l
}

func (l *Link) AB() *Dir { return l.ab }
func (l *Link) BA() *Dir { return l.ba }

func (d *Dir) run() {
	defer close(d.done)
	defer d.dst.close()
	for {
		n := 1 << 16
		if d.Cut != nil {
			n = d.Cut(d.Units)
		}
		var unit []byte
		if d.Cut == nil {
			// no framing: forward whatever is there
			buf := make([]byte, n)
			k, err := d.src.read(buf, nil)
			if err != nil {
				return
			}
			unit = buf[:k]
		} else {
			unit = make([]byte, n)
			got := 0
			for got < n {
				k, err := d.src.read(unit[got:], nil)
				if err != nil {
					// the sender closed in the middle of a unit: forward the partial bytes, then end
					if got > 0 {
						d.dst.write(unit[:got])
					}
					return
				}
				got += k
			}
		}
		idx := d.Units
		d.Units++
		fwd, closeAfter := [][]byte{unit}, false
		if d.Op != nil {
			fwd, closeAfter = d.Op(idx, unit)
		}
		for _, f := range fwd {
			if err := d.dst.write(f); err != nil {
				return
			}
		}
		if closeAfter {
			return
		}
	}
}

import sys,json,glob
from collections import Counter
c=Counter(); ex={}
for f in glob.glob(sys.argv[1]+'/out/*.jsonl'):
  for l in open(f):
    r=json.loads(l)
    for k,v in (r.get('extra') or {}).items():
        c[k]+=1; ex.setdefault(k,(r['seed'],v))
    for v in r.get('violations') or []:
        k='VIOL:'+v['property']+'/'+v['oracle']+'/'+v.get('key',''); c[k]+=1; ex.setdefault(k,(r['seed'],v['msg']))
for k,n in c.most_common(): print(n,k,ex[k])

#!/usr/bin/env python3
"""Generates MANIFEST.json from the table below (single source of truth for claims)."""
import json, os, sys
VERIF = os.path.dirname(os.path.dirname(os.path.abspath(__file__)))

TECH = "deterministic simulation with fault injection: seeded search over schedules and fault sequences, invariants checked during the run and over the recorded history, replayable minimised traces"

CLAIMS = {
 "C01": dict(engine="csim", level="exploration", design="4 C01",
   text="Seeded search over delivery orders, losses, duplicates, partitions, timeouts, Byzantine equivocation (< 1/3 power) and honest crash/restart (incl. torn WAL tails) on 1-7 real validators; after every step all honest block stores are compared height by height and each chain is checked for linearity, again from disk after every restart. A clean batch is evidence over the sampled schedules, not proof.",
   note="Trusted: the harness (pool of deliverable artefacts over-approximates gossip), synctest's fake clock, simdisk in place of LevelDB (process-death durability). Byzantine power is kept below 1/3 by construction. Finding F1 is compensated in these runs (DESIGN.md section 12)."),
 "C02": dict(engine="csim", level="exploration", design="4 C02",
   text="Every block any honest node stores is re-judged by harness code sharing only SignBytes and the signature primitive with the repository: linkage, app/receipts hash of the prior state, header commitments recomputed on a fresh decode, validator-set hash, and the stored seen-commit plus the LastCommit of the next block verified signature by signature against a reference validator-set history.",
   note="Reference execution is the lite application model in csim runs; Byzantine proposers build blocks on honest state with mutated fields. Hash functions (merkle, wire) are the repository's, applied to a freshly decoded copy."),
 "C03": dict(engine="signersim+csim", level="fault_enumeration", design="4 C03",
   text="signersim: for sampled request histories (heights 1-3, rounds 0-2, three steps, three block ids, repeats and regressions) every request is combined with every crash stage and every write-failure stage of the durable signer-file write, each followed by reload and the rest of the history; released signatures must be unique per height/round/step, never regress, and be covered by the durable watermark after every reload. csim: the same ledger over everything honest validators sign in multi-node runs with armed crashes inside the signer write.",
   note="Exhaustive over (request, stage) for each sampled history; histories are sampled. Process-death durability (what was written before the crash point stays); reads are not faulted. A request may fail under an injected write error; nothing else is relaxed."),
 "C04": dict(engine="csim", level="exploration", design="4 C04",
   text="Every vote and proposal an honest validator signs is judged at the moment of signing against the ledger of valid votes delivered to it: precommit needs a polka of that round, prevote/proposal against an earlier precommit needs a later polka for something else, commit needs +2/3 precommits of one round.",
   note="The ledger counts delivered (a superset of processed) votes, so it only errs toward permitting. The monitor starts over at each restart (what survives a crash is C07's subject)."),
 "C05": dict(engine="execsim", level="exploration", design="4 C05",
   text="One generated chain (transfers, contract creations and calls incl. precompiles, key-value transactions, invalid, replayed and empty-block cases) is executed by 3-5 real full nodes (Angine + EVM application over simulated disks), each with its own process history (clean restarts between any two blocks) and its own number of signature-verifier goroutines; after every block all replicas must hold the reference replica's application hash and receipts hash and answer a fixed query set (nonces, receipts, keys, key-update histories, contract existence) identically; a replica that refuses or panics on a block is a violation.",
   note="The verifier's goroutines run as real goroutines to quiescence (their interleaving is not driven from the tape). Blocks are built and signed by the harness; the consensus path is C01/C02's subject. Crash histories are C06's subject and not generated here."),
 "C06": dict(engine="execsim", level="fault_enumeration", design="4 C06",
   text="For a generated chain a scout replica records the durable writes issued while one block is committed (block store, intermediate state, trie nodes, application last-block record, receipts, key-value history, state); for EVERY write k a fresh replica is crashed immediately before k, restarted (the real RecoverFromCrash runs), in a third of the cases crashed again during recovery, and must then: come up, have block store, state and application agree on one height and on the uncrashed run's hashes, still serve every earlier block unchanged, execute the rest of the chain with the uncrashed run's hashes, and end with identical nonces, receipts, key values and key-update histories (exactly-once application).",
   note="Exhaustive over the single crash points of the enumerated block on the executor path (the calls fast sync makes; finalizeCommit issues the same writes in the same order, plus WAL and signer writes which C07/C03 cover); block kinds and the target block are sampled. Process-death durability. Known finding F9 is reported per crash class."),
 "C07": dict(engine="csim", level="fault_enumeration", design="4 C07",
   text="In seeded multi-round heights (Byzantine noise, small WAL head limits that force rotation inside a height, repeated crashes) validators are killed at quiescent points, at armed write points and with the log tail cut at a seeded byte offset inside the last record; after OnStart the restored round state (votes, lock, proposal, parts, step) must equal the pre-crash digest for an intact log and lie between the digests before and after the last record for a torn one; restart must not panic, the signature ledger must show no contradiction, and the fair suffix must still decide.",
   note="Crash points are sampled per run (seeded), not enumerated exhaustively: evidence reports distinct (restart, truncation) cases reached. Findings F2 and F6 (and uncompensated F1) are reported as KNOWN-FINDING under keys that name their precondition, so other replay defects under other preconditions are still reported."),
 "C08": dict(engine="csim", level="exploration", design="4 C08",
   text="While real multi-validator heights run under the usual schedule noise, a seeded adversarial peer sends structure-aware hostile messages of every consensus message type (one boundary or hostile value per message: negative, zero, maximal and off-by-one indices, heights and rounds, nil fields, foreign or missing signatures, impossible lengths, malformed bit arrays) and raw byte strings (empty, truncated, bit-flipped, random, absurd length prefix) on all four consensus channels, at whatever step the receiver is in. A panic on any goroutine the node owns, an abort of the process (out of memory), a consensus-state digest changed by an invalid message, or a node that no longer commits in the fair suffix are violations; a panic inside Receive is counted, the peer is dropped and reconnected as production does.",
   note="Covers the consensus reactor's Receive and everything behind it on the consensus routine. Block-sync, mempool and peer-exchange reactors and the real MConnection byte path are not in this engine (not claimed here). Inputs are sampled from a fixed catalogue of 60 mutation kinds x seeded parameters."),
 "C09": dict(engine="execsim", level="exploration", design="4 C09",
   text="Adversarial transaction streams (byte strings, empty transactions, signed transactions to every precompile incl. the governance precompile with payload lengths around its parser offsets, malformed key-value payloads, unsigned, stale, future and replayed transactions, contract creations and calls) are executed by real full nodes; the node must survive every block, account nonces and receipts must match a reference nonce model transaction by transaction (valid exactly at the sender's current nonce, nonce +1 per valid transaction, replays invalid), key values must be the last valid write, and a twin replica executing the chain without the certainly-invalid transactions must end in the same application hash.",
   note="Input space (byte strings, bytecode) is sampled from a fixed catalogue; simulation adds node survival, replay across blocks, the differential twin and replica histories. Transactions whose validity depends on gas accounting are judged only differentially."),
 "C14": dict(engine="execsim", level="exploration", design="4 C14",
   text="A chain with 1-4 genesis validators of seeded powers whose keys the harness holds (it signs every commit with the set in force). Half of the transactions are administrative requests of 26 variants sent through the genesis admin contract or straight to the precompile: fully signed add/update/remove, the minimal signer subset that exceeds 2/3 and the maximal one that does not, one signature repeated, non-validator and zero-power signers, signatures over another message, truncated signatures and keys, stale/future request nonces, requests in another account's name, accepted requests replayed (as a transaction through the contract, as a direct call in the original sender's name, and as a read-only contract query at a single replica), unknown command types and commands, updates of absent and additions of present nodes, a joining node that did not sign. An independent reference predicate (crypto/ed25519, distinct current validators with positive power, strictly more than 2/3, sender and nonce binding) decides each request from its bytes; a reference validator map is advanced by exactly the authorised ones, with membership conditions evaluated against the set in force and changes landing at the end of the block. After every block the validator set of every replica (3-5 real full nodes with restarts and different verifier goroutine counts) must equal the reference map.",
   note="Executor path (the calls fast sync makes), as for C05/C09; the admin plugin, the precompile, the genesis contract and the EVM are the real code. Requests that would make a block fail on every replica alike (two authorised changes of one node in one block, removal of the last validator with power) are not generated."),
 "C11": dict(engine="triesim", level="exploration", design="4 C11",
   text="Operation histories over keys with shared prefixes of every length (1-32 bytes from a 6-symbol alphabet, values 0-100 bytes): update, delete, get, hash, commit, clean reopen at the last committed root, crash inside TrieDB.Commit before its k-th batch write followed by reopen, injected batch write error; after every step Get agrees with a map model, roots equal reference go-ethereum v1.8.27's root for the same content and the root of a differently ordered history, reopen reproduces exactly the committed content, proofs verify to the stored value or absence exactly as the reference's do. StateDB histories (nonce, balance, storage, code, self-destruct, nested snapshot/revert, IntermediateRoot, Commit, reopen) run in lockstep with the reference StateDB and a model with a snapshot stack.",
   note="No clock and no concurrency exist on this surface; the fault dimension is reopen, crash-reopen and write failure on the simulated disk. The history-independence and reference-equality halves are model-based history checking driven by the same seeded machinery."),
 "C12": dict(engine="csim", level="exploration", design="4 C12",
   text="After every adversarial prefix the fair suffix stops faults, restarts crashed nodes and delivers every pending message and timeout in canonical order; every honest node must commit the next height within a generous bound on simulated time. A panic or gcmn.Exit on any node goroutine, and a node blocked while holding its state lock, are reported at any time.",
   note="Gossip routines are replaced by the harness's fair delivery (including the peer-majority claims queryMaj23Routine would send); the bound is 3N+5 rounds of growing timeouts plus per-height catch-up allowance."),
 "C17": dict(engine="partsim", level="exploration", design="4 C17",
   text="Sender part set -> adversarial network -> receiver that knows only the header: data lengths and part sizes incl. 1-byte parts, exact multiples and off-by-one; arrival permutations with duplicates; one mutation per delivered copy (bytes, index negative/total/beyond/other, each aunt, extra/missing aunt, proof of another part). A part must be accepted iff it is the genuine part at that index, rejected parts must leave the set unchanged, the completed set must reassemble to the original bytes and hash; every generated Merkle proof verifies and none verifies for another leaf, index or total.",
   note="Component engine (no clock). The consensus-goroutine side (a hostile part arriving at a running validator) is exercised by C08's injections part-*. Known finding F8 (root does not commit to the leaf count) is reported as KNOWN-FINDING."),
 "C15": dict(engine="csim", level="exploration", design="4 C15",
   text="After every step every vote set of every honest node is compared with the harness ledger: a reported +2/3 majority (or +2/3-any) must be backed by valid votes of distinct validators offered to that node, must never change, and the commit assembled from it must pass the harness's own commit verifier.",
   note="In-vivo direction only (no false majority); the converse direction and overflow-boundary powers are the subject of votesim (not yet registered)."),
 "C16": dict(engine="csim+valsetsim", level="exploration", design="4 C16",
   text="csim: all honest replicas must compute the same proposer for every (height, round) they enter, whether they stepped, skipped rounds, restarted or caught up, and hold the same validator-set hash and membership as the reference history. valsetsim: one validator-set history replayed on replicas that differ in batching, copy-on-increment and a persistence round trip; proposer, hash, sortedness, copy independence and exact proportionality over total-power windows from genesis.",
   note="Known finding F1 (proposer cache lost by persistence) is reported as KNOWN-FINDING; C16 runs do not compensate it. Fairness windows are checked from genesis accumulators only."),
}

PLANNED = {
 "C13": "not claimed yet: syncsim not built in this revision",
 "C19": "not claimed yet: poolsim not built in this revision",
 "C20": "not claimed yet: p2psim not built in this revision",
}
NA = {
 "C10": "not applicable to this technique: the outcome of the VM is a pure function of bytecode, call data and pre-state; there is no schedule, clock, fault or second party to simulate (differential testing against the reference VM is input generation, a different family)",
 "C18": "not applicable to this technique: codec round-trip, bounded decoding and sign-bytes injectivity are for-all-inputs statements about pure functions; torn WAL lines (C07) and mutated network bytes (C08) exercise decoders only incidentally and no verdict on C18 is derived from that",
}

def main():
    checks = []
    for pid in sorted(CLAIMS):
        c = CLAIMS[pid]
        checks.append(dict(property_id=pid, quick_cmd="./verif check %s quick" % pid, thorough_cmd="./verif check %s thorough" % pid,
                           evidence_file="/verif/evidence/%s.json" % pid, replay_cmd_template="./verif replay {path}", engine=c["engine"],
                           level_claimed=dict(category=c["level"], text=c["text"], design_ref="DESIGN.md section " + c["design"]),
                           level_note=c["note"], technique=TECH))
    na = []
    for pid in sorted(set(PLANNED) | set(NA)):
        if pid in CLAIMS:
            continue
        na.append(dict(property_id=pid, reason=NA.get(pid) or PLANNED[pid]))
    hooks = dict(guard="verif", enable="go build tag: go test -c -tags verif (checks build a scratch copy of /repo with the tag on; the go-statement instrumenter runs on that copy only)",
                 baseline_off_cmd="cd /repo && GOFLAGS=-mod=mod go test -vet=off -count=1 -timeout 25m ./...",
                 source_commits=open(os.path.join(VERIF, "hooks_commits.txt")).read().split() if os.path.exists(os.path.join(VERIF, "hooks_commits.txt")) else [],
                 add_only=True)
    engines = [
        dict(name="simrt", path="/verif/simrt", serves_properties=sorted(CLAIMS), kind_free_text="seeded choice source, goroutine registry behind simhook.Go, panic capture, bubble runner, traces, ddmin, generic worker"),
        dict(name="simdisk", path="/verif/simdisk", serves_properties=sorted(CLAIMS), kind_free_text="simulated durable storage behind dbm.DB and ethdb.Database with write counter and crash arming"),
        dict(name="instr", path="/verif/instr", serves_properties=sorted(CLAIMS), kind_free_text="go/ast instrumenter applied to the scratch copy: go statements -> simhook.Go (level 0), lock sites -> simhook.LockF (level 1)"),
        dict(name="csim", path="/verif/sims/csim", serves_properties=[p for p in sorted(CLAIMS) if "csim" in CLAIMS[p]["engine"]], kind_free_text="message-level consensus simulator: real ConsensusState/Reactor.Receive/WAL/signer/store per validator, Byzantine puppets, run-to-quiescence in a synctest bubble"),
        dict(name="signersim", path="/verif/sims/signersim", serves_properties=["C03"], kind_free_text="crash-point and write-error enumeration over the real signer file"),
        dict(name="fullnode", path="/verif/sims/fullnode", serves_properties=["C05", "C06", "C09", "C14"], kind_free_text="assembles a complete node (real Angine + real EVM application) over simulated disks without sockets"),
        dict(name="execsim", path="/verif/sims/execsim", serves_properties=["C05", "C06", "C09", "C14"], kind_free_text="one harness-built chain executed by many real full nodes with different process histories; crash-point enumeration over the commit path"),
        dict(name="triesim", path="/verif/sims/triesim", serves_properties=["C11"], kind_free_text="trie / StateDB histories with commit, reopen, crash-reopen, write error; reference go-ethereum in lockstep"),
        dict(name="partsim", path="/verif/sims/partsim", serves_properties=["C17"], kind_free_text="part-set sender/receiver with reordering, duplicating, mutating network; Merkle proof mutations"),
        dict(name="valsetsim", path="/verif/sims/valsetsim", serves_properties=["C16"], kind_free_text="validator-set histories replayed on differently-batched / persisted replicas"),
    ]
    m = dict(version=1, setup_cmd="./verif setup", hooks=hooks, engines=engines, checks=checks, not_applicable=na,
             notes="All checks: rsync /repo to a scratch copy, instrument, build with -tags verif under go1.26.8, fan seeded runs out to worker processes, merge, write evidence, delete the scratch copy. Exit 2 = infrastructure trouble (never a violation). VERIF_SEED / --seed select the batch seed; VERIF_WORKERS the fan-out.")
    json.dump(m, open(os.path.join(VERIF, "MANIFEST.json"), "w"), indent=1)
    print("wrote MANIFEST.json with", len(checks), "checks,", len(na), "not claimed")

if __name__ == "__main__":
    main()

"""Batch orchestration, known findings, evidence writing for the verif driver."""
import json, os, subprocess, sys, time, shutil, glob

import __main__ as drv

VERIF = drv.VERIF

# property -> engine description
CSIM_PROPS = {"C01", "C02", "C04", "C12", "C15", "C16"}

ENGINES = {
    "csim": dict(pkg="./sims/csim", bin="csim.test", test="^TestWorker$"),
    "valsetsim": dict(pkg="./sims/valsetsim", bin="valsetsim.test", test="^TestWorker$"),
    "signersim": dict(pkg="./sims/signersim", bin="signersim.test", test="^TestWorker$"),
    "partsim": dict(pkg="./sims/partsim", bin="partsim.test", test="^TestWorker$"),
    "execsim": dict(pkg="./sims/execsim", bin="execsim.test", test="^TestWorker$"),
    "p2psim": dict(pkg="./sims/p2psim", bin="p2psim.test", test="^TestWorker$"),
    # the reference go-ethereum and the in-tree copy both carry libsecp256k1: built with the pure-Go fallback of both
    "triesim": dict(pkg="./sims/triesim", bin="triesim.test", test="^TestWorker$", tags="verif nocgo", cgo=False),
}

# property: list of parts (engine, quick_runs, share of the thorough time budget); thorough budget in seconds
THOROUGH_S = 1200
# component engines saturate their state space much earlier than the node engines
THOROUGH_BY_PROP = {"C17": 300, "C11": 400, "C03": 600, "C16": 800, "C05": 700, "C09": 700, "C14": 700, "C19": 700, "C06": 900, "C13": 900, "C20": 800}
PARTS = {
    "C01": [("csim", 280, 0.8), ("execsim", 28, 0.2)],
    "C02": [("csim", 280, 1.0)],
    "C04": [("csim", 280, 1.0)],
    "C12": [("csim", 280, 0.75), ("execsim", 42, 0.25)],
    "C15": [("csim", 280, 1.0)],
    "C16": [("csim", 200, 0.7), ("valsetsim", 4000, 0.3)],
    "C07": [("csim", 280, 1.0)],
    "C08": [("csim", 280, 1.0)],
    "C17": [("partsim", 6000, 1.0)],
    "C05": [("execsim", 700, 1.0)],
    "C09": [("execsim", 700, 1.0)],
    "C06": [("execsim", 160, 1.0)],
    "C13": [("execsim", 300, 1.0)],
    "C14": [("execsim", 700, 1.0)],
    "C19": [("execsim", 900, 1.0)],
    "C20": [("p2psim", 3000, 0.5), ("execsim", 400, 0.5)],
    "C11": [("triesim", 6000, 1.0)],
    "C03": [("signersim", 1200, 0.5), ("csim", 120, 0.5)],
}

REAL = {
    "execsim": ["gemmill Angine (buildState, assembleStateMachine, ConnectApp, RecoverFromCrash, plugin glue)", "gemmill/state ExecBlock/ApplyBlock/Save, gemmill/blockchain store, pbft ConsensusState.ValidateBlock",
                "chain/app/evm EVMApp (OnExecute, parallel signature verifier with its real goroutines, OnCommit, SaveReceipts, key-value history, Query), transaction pool construction",
                "eth/core state transition, VM incl. precompiles and the governance precompile, StateDB, trie, rlp"],
    "p2psim": ["gemmill/p2p SecretConnection (handshake, Write, Read) and MConnection (channels, packetisation, send/receive routines, flush throttle, flow monitors)", "go-wire", "golang.org/x/crypto secretbox / curve25519"],
    "triesim": ["eth/trie (Trie insert/delete/get/hash/commit, Database commit, Prove/VerifyProof)", "eth/core/state (StateDB, state objects, journal, snapshots, IntermediateRoot, Commit)", "eth/rlp, eth/crypto keccak"],
    "partsim": ["gemmill/types PartSet/Part (NewPartSetFromData, NewPartSetFromHeader, AddPart, GetReader)", "go-merkle simple tree and proofs", "go-hash"],
    "signersim": ["gemmill/types PrivValidator (SignVote, SignProposal, signBytesHRS, save, LoadPrivValidator)", "go-common WriteFileAtomic on a real file", "go-wire JSON of the signer file"],
    "valsetsim": ["gemmill/types ValidatorSet/Validator (IncrementAccum, Copy, Add/Update/Remove, Proposer, Hash)", "go-wire binary persistence round trip", "go-common heap"],
    "csim": ["gemmill/consensus/pbft (state machine, reactor Receive, WAL, replay, real timeout ticker behind a gate, height vote set)",
             "gemmill/types (vote sets, part sets, validator sets, blocks, signer file)", "gemmill/state (ExecBlock/ApplyBlock/Save)",
             "gemmill/blockchain store", "gemmill/mempool", "go-wire, go-merkle, go-autofile (real files), go-events"],
}
STUB = {
    "execsim": ["LevelDB -> simdisk (process-death durability)", "consensus: the harness builds the blocks and signs the commits with the validator key; replicas execute them through the three calls of the fast-sync executor (SaveBlock, ApplyBlock, Save)", "p2p, RPC, query-cache plugin (not loaded)"],
    "p2psim": ["TCP -> simnet link: two in-memory connection ends with a relay in the middle that forwards the ciphertext unit by unit (ephemeral key, then sealed frames) and applies seeded operations", "no Switch, no reactors in this engine (admission runs in execsim on the real Switch of a full node)"],
    "triesim": ["LevelDB -> simdisk (batch = one atomic write; crash = death before batch k of a commit; injected batch write error)", "no clock, no concurrency: the fault dimension is reopen / crash-reopen / write error", "oracle: reference go-ethereum v1.8.27 trie and StateDB in lockstep, plus a map model"],
    "partsim": ["no node: sender and receiver part sets with an adversarial network in between (reorder, duplicate, one mutation per delivered copy)"],
    "signersim": ["no node, no clock, no goroutines: the signer is driven directly; process death = panic out of the fault point before a file operation, everything written before it stays"],
    "valsetsim": ["no node, no clock: replicas are validator-set objects driven through one history by different paths"],
    "csim": ["LevelDB -> simdisk ordered map with write counter (crash = process death before write k)",
             "p2p transport and the three gossip routines -> harness delivers any artefact any honest node holds (over-approximation)",
             "EVM application -> stateless lite app (hashes are a pure function of the block)", "RPC, archive, logging"],
}


# evidence and replay files of a run against a scratch copy of the repository (VERIF_REPO) go elsewhere
OUT = os.environ.get("VERIF_OUTDIR", VERIF)

def load_known():
    p = os.path.join(VERIF, "known_findings.json")
    if not os.path.exists(p):
        return []
    return json.load(open(p)).get("findings", [])


def known_keys(prop=None):
    ks = []
    for f in load_known():
        if f.get("status") == "open":
            ks.append("%s/%s/%s" % (f["property"], f["oracle"], f["key"]))
    return ks


def run_workers(binp, test, prop, seed, nruns, budget_s, outdir, extra_env=None, workers=None, chunk=None):
    """Fan runs out to worker processes; returns list of RunResult dicts, list of worker failures."""
    workers = workers or drv.WORKERS
    os.makedirs(outdir, exist_ok=True)
    if chunk is None:
        chunk = max(1, min(25, (nruns + workers - 1) // workers))
    jobs = [(a, min(a + chunk, nruns)) for a in range(0, nruns, chunk)]
    procs = {}
    failures = []
    results = []
    deadline = time.time() + budget_s
    ji = 0
    # one P per worker process: goroutines of a simulated node then interleave only at blocking points,
    # which removes most real-scheduler nondeterminism inside a quiescence window (parallelism comes from
    # the number of worker processes)
    env0 = dict(drv.ENV, GOMAXPROCS="1", VERIF_MODE="batch", VERIF_PROP=prop, VERIF_SEED=str(seed), VERIF_KNOWN=",".join(known_keys()),
                VERIF_REPLAY_DIR=os.path.join(OUT, "replays"))
    if extra_env:
        env0.update(extra_env)

    stall_s = int(os.environ.get("VERIF_STALL_S", "150"))

    def launch(job):
        a, b = job
        out = os.path.join(outdir, "w-%d-%d.jsonl" % (a, b))
        errp = out + ".stderr"
        env = dict(env0, VERIF_FROM=str(a), VERIF_TO=str(b), VERIF_OUT=out, VERIF_BUDGET_S=str(max(5, int(deadline - time.time()))))
        p = subprocess.Popen([binp, "-test.run", test, "-test.timeout", "0", "-test.count", "1"], env=env,
                             stdout=subprocess.DEVNULL, stderr=open(errp, "w"), cwd=outdir)
        procs[p] = dict(job=job, out=out, errp=errp, t0=time.time(), last=time.time(), size=-1)

    def last_run_index(errp):
        idx = None
        try:
            for line in open(errp):
                if line.startswith("run "):
                    idx = int(line.split()[1])
        except Exception:
            pass
        return idx

    while ji < len(jobs) or procs:
        while ji < len(jobs) and len(procs) < workers and time.time() < deadline:
            launch(jobs[ji])
            ji += 1
        if time.time() >= deadline and ji < len(jobs):
            ji = len(jobs)
        done = [p for p in procs if p.poll() is not None]
        for p in done:
            st = procs.pop(p)
            got = read_results(st["out"])
            results.extend(got)
            if p.returncode != 0 and not st.get("killed"):
                tail = open(st["errp"]).read()[-3000:]
                full = open(st["errp"]).read()
                fatal = None
                if "WaitGroup.Add called from inside and outside synctest bubble" in full:
                    # artefact of running the signature verifier's WaitGroup (Add racing Wait, benign outside a
                    # bubble) under synctest's bubble-association check: the run is inconclusive
                    failures.append(dict(job=st["job"], rc=p.returncode, got=len(got), stderr="synctest WaitGroup association artefact", kind="hang"))
                    idx = last_run_index(st["errp"])
                    if idx is not None and idx + 1 < st["job"][1]:
                        jobs.append((idx + 1, st["job"][1]))
                    continue
                if "fatal error:" in full:
                    # the Go runtime aborted the whole process (out of memory, concurrent map write, ...)
                    fl = [l for l in full.splitlines() if l.startswith("fatal error:")][0]
                    # the faulting goroutine is the first one printed; the abort is attributed to the code under test only if
                    # the first frame of that goroutine outside the Go runtime is repository code (a harness bug is exit 2)
                    first_g = full.split("fatal error:", 1)[1].split("\n\ngoroutine ", 2)
                    first_g = first_g[1] if len(first_g) > 1 else ""
                    fr = [l.strip() for l in first_g.splitlines() if "(" in l and not l.startswith("\t") and not l.startswith("goroutine")
                          and not l.strip().startswith(("runtime.", "internal/", "sync.", "sync/", "testing."))]
                    frames = [fr[0]] if fr and "dappledger/AnnChain/" in fr[0] and "/simhook." not in fr[0] else []
                    frame = frames[0].split("/")[-1].split("(0x")[0] if frames else "?"
                    seedl = [l for l in full.splitlines() if l.startswith("run ")]
                    if not frames:
                        fatal = None
                        failures.append(dict(job=st["job"], rc=p.returncode, got=len(got), stderr=tail, kind="crash", fatal=None, harness_abort=fl))
                        idx = last_run_index(st["errp"])
                        if idx is not None and idx + 1 < st["job"][1]:
                            jobs.append((idx + 1, st["job"][1]))
                        continue
                    fatal = dict(msg=fl, frame=frame, seed=int(seedl[-1].split()[3]) if seedl else 0, index=int(seedl[-1].split()[1]) if seedl else -1)
                failures.append(dict(job=st["job"], rc=p.returncode, got=len(got), stderr=tail, kind="crash", fatal=fatal))
                # a crashed worker (a panic that escaped the registry) loses only the run it was in
                idx = last_run_index(st["errp"])
                if idx is not None and idx + 1 < st["job"][1]:
                    jobs.append((idx + 1, st["job"][1]))
            if st.get("killed"):
                idx = last_run_index(st["errp"])
                failures.append(dict(job=st["job"], rc=-9, got=len(got), stderr="run %s made no progress for %ds (hung)" % (idx, stall_s), kind="hang", run=idx))
                if idx is not None and idx + 1 < st["job"][1] and time.time() < deadline:
                    jobs.append((idx + 1, st["job"][1]))
        if not done:
            now = time.time()
            for p, st in list(procs.items()):
                try:
                    sz = os.path.getsize(st["errp"])
                except OSError:
                    sz = 0
                if sz != st["size"]:
                    st["size"], st["last"] = sz, now
                elif now - st["last"] > stall_s or now > deadline + 180:
                    st["killed"] = True
                    p.kill()
            time.sleep(0.05)
    return results, failures


def read_results(path):
    res = []
    if not os.path.exists(path):
        return res
    for line in open(path):
        line = line.strip()
        if line:
            try:
                res.append(json.loads(line))
            except Exception:
                pass
    return res


def merge_counts(results, key):
    tot = {}
    for r in results:
        for k, v in (r.get(key) or {}).items():
            tot[k] = tot.get(k, 0) + v
    return dict(sorted(tot.items()))


def write_evidence(prop, tier, seed, level, results, wall, violations, rule, extra=None, assumptions=None, engine="csim"):
    nontriv = set()
    states = set()
    samples = []
    cases = 0
    dcases = 0
    seen_tr = set()
    for r in results:
        cases += r.get("cases") or 1
        if r.get("nontrivial"):
            if r.get("trace_hash") not in seen_tr:
                dcases += r.get("distinct_cases") or 1
            seen_tr.add(r.get("trace_hash"))
            nontriv.add(r.get("trace_hash"))
        for s in r.get("states") or []:
            states.add(s)
        if r.get("sample") and len(samples) < 3:
            samples.append(r["sample"])
    if not samples:
        samples = [{"note": "no run completed"}]
    sim = sum(r.get("sim_seconds", 0) for r in results)
    cov = dict(
        evaluations=cases,
        distinct_nontrivial=dcases,
        runs=len(results),
        rule=rule,
        samples=samples,
        runs_per_hour=int(len(results) / wall * 3600) if wall > 0 else 0,
        sim_seconds_total=round(sim, 1),
        steps_total=sum(r.get("steps", 0) for r in results),
        faults_fired=merge_counts(results, "faults"),
        probes=merge_counts(results, "probes"),
        oracle_evaluations=merge_counts(results, "oracle_eval"),
        distinct_states=len(states),
        distinct_states_measure="set of abstract per-node states (round<=3, step, locked?, has-proposal?, prevote count) visited at quiescence points",
        real_components=REAL.get(engine, []),
        stub_components=STUB.get(engine, []),
        exhaustive=False,
    )
    if extra:
        cov.update(extra)
    ev = dict(property_id=prop, tier=tier, seed=seed, level=level, coverage=cov, wall_s=round(wall, 1), violations=violations,
              assumptions=assumptions or [])
    os.makedirs(os.path.join(OUT, "evidence"), exist_ok=True)
    p = os.path.join(OUT, "evidence", prop + ".json")
    json.dump(ev, open(p + ".tmp", "w"), indent=1, default=str)
    os.replace(p + ".tmp", p)
    if tier == "thorough":
        # the evidence file is rewritten by every run; the last thorough run is kept next to it
        os.makedirs(os.path.join(OUT, "evidence_thorough"), exist_ok=True)
        json.dump(ev, open(os.path.join(OUT, "evidence_thorough", prop + ".json"), "w"), indent=1, default=str)


def report(prop, results, failures, determinism):
    """Classify violations; print KNOWN-FINDING / VIOLATION lines; return exit code and violation count."""
    known = load_known()
    known_open = {(f["property"], f["oracle"], f["key"]): f for f in known if f.get("status") == "open"}
    seen_known = {}
    new = []
    for r in results:
        for v in r.get("violations") or []:
            k = (v["property"], v["oracle"], v.get("key", ""))
            if k in known_open:
                seen_known[k] = seen_known.get(k, 0) + 1
            elif v["property"] == prop:
                new.append((r, v))
    for k, f in known_open.items():
        if f["property"] == prop:
            print("KNOWN-FINDING: property=%s %s (oracle %s key %s; seen in %d runs of this batch)" % (prop, f["what"], f["oracle"], f["key"], seen_known.get(k, 0)))
    rc = 0
    os.makedirs(os.path.join(OUT, "replays"), exist_ok=True)
    reported = set()
    for f in list(failures):
        ft = f.get("fatal")
        if ft and prop in ("C08", "C12"):
            # the simulated node took the whole process down: the strongest form of "crashed by peer input"
            failures.remove(f)
            k = ("process-aborted", ft["frame"])
            if (prop,) + k in known_open:
                continue
            if k in reported:
                continue
            reported.add(k)
            path = os.path.join(OUT, "replays", "%s-process-aborted-%s.json" % (prop, ft["seed"]))
            json.dump(dict(engine=f.get("engine", "csim"), property=prop, seed=ft["seed"], from_seed=True, index=ft["index"],
                           violation=dict(property=prop, oracle="process-aborted", key=ft["frame"], msg=ft["msg"]),
                           note="the run aborts the Go runtime; replay regenerates the run from its seed"), open(path, "w"), indent=1)
            print("VIOLATION property=%s replay=%s" % (prop, path))
            print("  oracle=process-aborted key=%s seed=%s: %s in %s" % (ft["frame"], ft["seed"], ft["msg"], ft["frame"]))
            rc = 1
    for r, v in new:
        k = (v["oracle"], v.get("key", ""))
        if k in reported:
            continue
        reported.add(k)
        rp = r.get("replay")
        path = os.path.join(OUT, "replays", "%s-%s-%s.json" % (prop, v["oracle"], r["seed"]))
        if rp:
            json.dump(rp, open(path, "w"), indent=1)
        else:
            json.dump(dict(engine="?", property=prop, seed=r["seed"], violation=v, note="no replay attached"), open(path, "w"), indent=1)
        print("VIOLATION property=%s replay=%s" % (prop, path))
        print("  oracle=%s key=%s seed=%s: %s" % (v["oracle"], v.get("key", ""), r["seed"], v["msg"]))
        rc = 1
    if rc == 0:
        if determinism and determinism.get("divergences"):
            drv.log("verif: determinism re-check diverged: %s" % determinism)
            return 2, 0
        hangs = [f for f in failures if f.get("kind") == "hang"]
        others = [f for f in failures if f.get("kind") != "hang"]
        for f in failures[:4]:
            drv.log("verif: worker failure rc=%s job=%s kind=%s\n%s" % (f["rc"], f["job"], f.get("kind"), f["stderr"][-1500:]))
        # a run that made no progress in real time is inconclusive (usually goroutines of a dead
        # incarnation contending for a lock, which synctest cannot see as durably blocked); it is
        # reported in the evidence and tolerated while rare
        if others or len(hangs) > max(2, len(results) // 100):
            return 2, 0
    return rc, len(new)


def determinism_recheck(binp, test, prop, seed, results, outdir, n=3, extra_env=None):
    """Re-run the first n runs in a fresh process at another GOMAXPROCS and compare event-log hashes."""
    first = sorted(results, key=lambda r: r["index"])[:n]
    if not first:
        return dict(seeds=0, divergences=0)
    env = dict(extra_env or {})
    env["GOMAXPROCS"] = "3"
    env["VERIF_MINIMIZE"] = "0"
    hi = max(r["index"] for r in first) + 1
    again, fails = run_workers(binp, test, prop, seed, hi, 600, os.path.join(outdir, "recheck"), extra_env=env, workers=1, chunk=hi)
    byidx = {r["index"]: r for r in again}
    div = []
    for r in first:
        a = byidx.get(r["index"])
        if a is None or a["log_hash"] != r["log_hash"] or a["trace_hash"] != r["trace_hash"]:
            div.append(r["seed"])
    return dict(seeds=len(first), gomaxprocs=[os.environ.get("GOMAXPROCS", "default"), "3"], divergences=len(div), diverged_seeds=div)


def check_parts(prop, tier, seed, parts, level="exploration", rule=None, extra_env=None, assumptions=None, l1=""):
    t0 = time.time()
    name = "%s-%d" % (prop, os.getpid())
    s = drv.prepare(name, l1)
    try:
        allres, allfail, dets, per_engine = [], [], {}, {}
        rc = 0
        for (engine, quick_runs, share) in parts:
            e = ENGINES[engine]
            binp = drv.build_test(s, e["pkg"], e["bin"], tags=e.get("tags", "verif"), cgo=e.get("cgo", True))
            outdir = os.path.join(s, "out-" + engine)
            if tier == "quick":
                nruns, budget = quick_runs, 900
            else:
                nruns, budget = 10 ** 7, int(int(os.environ.get("VERIF_THOROUGH_S", THOROUGH_BY_PROP.get(prop, THOROUGH_S))) * share)
            if os.environ.get("VERIF_RUNS"):
                nruns = int(os.environ["VERIF_RUNS"])
            results, failures = run_workers(binp, e["test"], prop, seed, nruns, budget, outdir, extra_env=extra_env,
                                            chunk=None if tier == "quick" else 40)
            for r in results:
                r["engine"] = engine
            for f in failures:
                f["engine"] = engine
            dets[engine] = determinism_recheck(binp, e["test"], prop, seed, results, outdir, extra_env=extra_env)
            per_engine[engine] = len(results)
            allres += results
            allfail += failures
        det = dict(seeds=sum(d["seeds"] for d in dets.values()), divergences=sum(d["divergences"] for d in dets.values()), per_engine=dets)
        rc, nviol = report(prop, allres, allfail, det)
        wall = time.time() - t0
        rule = rule or ("one evaluation = one seeded simulated run (swarm-drawn configuration, seeded action policy, then the fair suffix; "
                        "component engines: one generated operation/fault history); "
                        "non-trivial = at least one fault fired, at least one oracle of this property was evaluated and (node engines) at least one block was committed; "
                        "distinct = distinct hash of configuration and action trace")
        real, stub = [], []
        for (engine, _, _) in parts:
            real += REAL.get(engine, [])
            stub += STUB.get(engine, [])
        write_evidence(prop, tier, seed, level, allres, wall, nviol, rule,
                       extra=dict(determinism_recheck=det, worker_failures=len(allfail), inconclusive_hung_runs=len([f for f in allfail if f.get("kind") == "hang"]), runs_per_engine=per_engine, real_components=real, stub_components=stub),
                       assumptions=assumptions, engine=parts[0][0])
        return rc
    finally:
        drv.cleanup(s)


def default_seed(prop, tier):
    return 20260923 + int(prop[1:]) * 1000 + (0 if tier == "quick" else 500)


def check(prop, tier, seed):
    if seed is None:
        seed = default_seed(prop, tier)
    if prop in PARTS:
        return check_parts(prop, tier, seed, PARTS[prop], level=LEVEL.get(prop, "exploration"), assumptions=ASSUME.get(prop))
    drv.log("verif: no check registered for", prop)
    return 2


ASSUME = {}
LEVEL = {"C07": "fault_enumeration", "C03": "fault_enumeration", "C06": "fault_enumeration"}


def setup():
    s = drv.prepare("setup-%d" % os.getpid())
    try:
        for e in ENGINES.values():
            drv.build_test(s, e["pkg"], e["bin"], tags=e.get("tags", "verif"), cgo=e.get("cgo", True))
    finally:
        drv.cleanup(s)
    return 0


def replay(path):
    rp = json.load(open(path))
    engine = rp.get("engine", "csim")
    s = drv.prepare("replay-%d" % os.getpid())
    try:
        e = ENGINES[engine]
        binp = drv.build_test(s, e["pkg"], e["bin"], tags=e.get("tags", "verif"), cgo=e.get("cgo", True))
        out = os.path.join(s, "replay-out.json")
        if rp.get("from_seed"):
            # regenerate the run from its seed; the violation is the abort of the process itself
            env = dict(drv.ENV, VERIF_MODE="batch", VERIF_PROP=rp["property"], VERIF_EXACT_SEED=str(rp["seed"]), VERIF_FROM="0", VERIF_TO="1",
                       VERIF_OUT=os.path.join(s, "seed-out.jsonl"), VERIF_KNOWN=",".join(known_keys()))
            pr = subprocess.run([binp, "-test.run", e["test"], "-test.timeout", "0"], env=env, stdout=subprocess.DEVNULL, stderr=subprocess.PIPE, cwd=s, text=True)
            if pr.returncode != 0 and "fatal error:" in pr.stderr:
                print("VIOLATION property=%s replay=%s" % (rp.get("property"), path))
                print("  reproduced: " + [l for l in pr.stderr.splitlines() if l.startswith("fatal error:")][0])
                return 1
            print("not reproduced (the process ran to completion)")
            return 0
        env = dict(drv.ENV, VERIF_MODE="replay", VERIF_REPLAY=os.path.abspath(path), VERIF_OUT=out)
        subprocess.run([binp, "-test.run", e["test"], "-test.timeout", "0"], env=env, stdout=subprocess.DEVNULL, stderr=subprocess.DEVNULL, cwd=s)
        if not os.path.exists(out):
            drv.log("verif: replay produced no result")
            return 2
        res = json.load(open(out))
        print(json.dumps(res, indent=1))
        if res.get("reproduced"):
            print("VIOLATION property=%s replay=%s" % (rp.get("property"), path))
            same = (res.get("log_hash") == rp.get("log_hash"))
            print("  reproduced: oracle=%s log_hash_identical=%s" % (rp["violation"]["oracle"], same))
            return 1
        return 0
    finally:
        drv.cleanup(s)


def selftest(args):
    import selftest as st
    return st.main(args)


def capture(args):
    """verif capture <prop> <oracle> <key> <out.json> [runs]: produce a minimised replay file for a known finding."""
    prop, oracle, key, out = args[:4]
    nruns = int(args[4]) if len(args) > 4 else 200
    s = drv.prepare("capture-%d" % os.getpid())
    try:
        best = None
        for (engine, _, _) in PARTS[prop]:
            e = ENGINES[engine]
            binp = drv.build_test(s, e["pkg"], e["bin"], tags=e.get("tags", "verif"), cgo=e.get("cgo", True))
            keep = [k for k in known_keys() if k != "%s/%s/%s" % (prop, oracle, key)]
            results, failures = run_workers(binp, e["test"], prop, default_seed(prop, "quick") + 77, nruns, 900, os.path.join(s, "cap-" + engine),
                                            extra_env=dict(VERIF_KNOWN=",".join(keep)))
            for r in results:
                rp = r.get("replay")
                if rp and rp["violation"]["oracle"] == oracle and rp["violation"].get("key", "") == key:
                    if best is None or len(rp["actions"]) < len(best["actions"]):
                        best = rp
        if best is None:
            drv.log("verif: finding not reproduced in %d runs" % nruns)
            return 2
        json.dump(best, open(out, "w"), indent=1)
        print("wrote", out, "actions:", len(best["actions"]))
        return 0
    finally:
        drv.cleanup(s)


def selftest(args):
    """verif selftest <PROP> [runs]: the same runs in fresh processes at GOMAXPROCS 1, 4, 16 and 1 again;
    any difference in event-log or trace hash is a determinism failure (exit 2)."""
    prop = args[0]
    n = int(args[1]) if len(args) > 1 else 40
    seed = default_seed(prop, "quick")
    s = drv.prepare("selftest-%s-%d" % (prop, os.getpid()))
    report = dict(property=prop, runs=n, seed=seed, engines={})
    bad = 0
    try:
        for (engine, _, _) in PARTS[prop]:
            e = ENGINES[engine]
            binp = drv.build_test(s, e["pkg"], e["bin"], tags=e.get("tags", "verif"), cgo=e.get("cgo", True))
            sets = []
            for k, gmp in enumerate(["1", "4", "16", "1"]):
                res, fails = run_workers(binp, e["test"], prop, seed, n, 1200, os.path.join(s, "st-%s-%d" % (engine, k)),
                                         extra_env={"GOMAXPROCS": gmp, "VERIF_MINIMIZE": "0"}, workers=[14, 5, 2, 9][k])
                sets.append({r["index"]: (r["log_hash"], r["trace_hash"]) for r in res})
            div = [i for i in sorted(sets[0]) if any(st.get(i) != sets[0][i] for st in sets[1:])]
            report["engines"][engine] = dict(compared=len(sets[0]), gomaxprocs=["1", "4", "16", "1"], worker_processes=[14, 5, 2, 9], diverged_indices=div)
            bad += len(div)
    finally:
        drv.cleanup(s)
    os.makedirs(os.path.join(VERIF, "selftest"), exist_ok=True)
    json.dump(report, open(os.path.join(VERIF, "selftest", prop + ".json"), "w"), indent=1)
    print(json.dumps(report))
    return 2 if bad else 0

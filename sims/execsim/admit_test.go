package execsim

// Admission of peers (the last clause of property C20), on the real Switch of a real full node whose
// validator set moves (C14 workload): a puppet peer - a real p2p.Switch holding a chosen key and
// announcing a chosen NodeInfo - connects over a simulated link and both sides run the production
// handshake (secret connection, node info, exchange data). A peer whose key is on the refuse list,
// whose announced identity differs from the authenticated key, or that needs a certificate and has
// none signed by a CURRENT authority must never be admitted.

import (
	"encoding/hex"
	"fmt"
	"os"
	"testing/synctest"
	"time"

	"github.com/spf13/viper"

	crypto "github.com/dappledger/AnnChain/gemmill/go-crypto"
	"github.com/dappledger/AnnChain/gemmill/p2p"

	"verif/simnet"
	"verif/simrt"
)

var admitVariants = []string{"validator", "stranger-nosig", "stranger-casig", "stranger-formerca", "stranger-noncasig", "removed-validator", "mismatch", "stranger-garbage-sig"}

func (w *world) admit(a simrt.Action) {
	if a.N >= len(w.reps) || !w.reps[a.N].Inc.Alive() {
		return
	}
	inc := w.reps[a.N].Inc
	rr := simrt.NewRand(uint64(a.A)*17 + 3)
	members, powers, _ := w.refMembers()
	stranger := crypto.GenPrivKeyEd25519FromSecret([]byte(fmt.Sprintf("execsim-stranger-%d-%d", w.cfg.Seed, a.A)))
	key := stranger
	announce := crypto.PubKey(nil)
	signer := (*crypto.PrivKeyEd25519)(nil)
	sigHex := ""
	var cas, nonCAs []crypto.PrivKeyEd25519
	for i, k := range members {
		if w.caRef[string(k.PubKey().Address())] && powers[i] >= 0 {
			cas = append(cas, k)
		} else {
			nonCAs = append(nonCAs, k)
		}
	}
	switch a.S {
	case "validator":
		key = members[rr.Intn(len(members))]
	case "stranger-nosig":
	case "stranger-casig":
		if len(cas) == 0 {
			return
		}
		signer = &cas[rr.Intn(len(cas))]
	case "stranger-noncasig":
		if len(nonCAs) == 0 {
			return
		}
		signer = &nonCAs[rr.Intn(len(nonCAs))]
	case "stranger-formerca":
		// signed by a key that was a validator once and is not any more
		var former []*crypto.PrivKeyEd25519
		for _, addr := range w.removedKeys {
			if _, back := w.valRef[addr]; !back {
				if k := w.keyOf([]byte(addr)); k != nil {
					former = append(former, k)
				}
			}
		}
		if len(former) == 0 {
			return
		}
		signer = former[rr.Intn(len(former))]
	case "removed-validator":
		var gone []*crypto.PrivKeyEd25519
		for _, k := range w.vkeys {
			k := k
			if w.refuseRef[string(pub32(k))] {
				gone = append(gone, &k)
			}
		}
		if len(gone) == 0 {
			return
		}
		key = *gone[rr.Intn(len(gone))]
	case "mismatch":
		announce = members[rr.Intn(len(members))].PubKey()
	case "stranger-garbage-sig":
		sigHex = hex.EncodeToString(rr.Bytes(64))
	}
	if signer != nil {
		sigHex = hex.EncodeToString(sig64(*signer, pub32(key)))
	}
	if announce == nil {
		announce = key.PubKey()
	}
	// ---- the reference verdict
	kp := key.PubKey().(crypto.PubKeyEd25519)
	_, isMember := w.valRef[string(kp.Address())]
	refuse := ""
	switch {
	case w.refuseRef[string(kp[:])]:
		refuse = "on the refuse list"
	case !announce.Equals(key.PubKey()):
		refuse = "announced identity differs from the authenticated key"
	case !isMember:
		ok := false
		if signer != nil {
			sp := signer.PubKey().(crypto.PubKeyEd25519)
			if _, m := w.valRef[string(sp.Address())]; m && w.caRef[string(sp.Address())] {
				ok = true
			}
		}
		if !ok {
			refuse = "no certificate signed by a current authority"
		}
	}
	// ---- the real handshake on both sides
	l := simnet.NewLink(fmt.Sprintf("10.0.0.%d:1", 10+a.N), fmt.Sprintf("10.0.9.%d:1", 1+int(a.A)%200), func(f func()) { w.reg.GoAs(inc, "relay", f) })
	pconf := viper.New()
	puppet := p2p.NewSwitch(pconf)
	puppet.SetNodePrivKey(key) // (overwrites the public key of the node info: the announced identity is set afterwards)
	puppet.SetNodeInfo(&p2p.NodeInfo{PubKey: announce, SigndPubKey: sigHex, Moniker: "puppet", ListenAddr: "10.0.9.1:1", Version: "0.1.0"})
	puppet.SetExchangeData(&p2p.ExchangeData{GenesisJSON: inc.Sw.GetExchangeData().GenesisJSON})
	var peer *p2p.Peer
	var err, perr error
	doneN, doneP := false, false
	// the node either accepted the connection or dialed it: the rules are the same
	outbound := a.A%2 == 1
	w.reg.GoAs(inc, "admit-node", func() { peer, err = inc.Sw.AddPeerWithConnection(l.A, outbound); doneN = true })
	w.reg.GoAs(inc, "admit-puppet", func() { _, perr = puppet.AddPeerWithConnection(l.B, !outbound); doneP = true })
	synctest.Wait()
	for i := 0; i < 30 && !(doneN && doneP); i++ {
		time.Sleep(time.Second) // handshake deadlines
		synctest.Wait()
	}
	l.A.Close()
	l.B.Close()
	synctest.Wait()
	w.out.Evals["C20.admission"]++
	w.out.Probes["admit:"+a.S]++
	if outbound {
		w.out.Probes["admit-outbound"]++
	}
	admitted := doneN && err == nil && peer != nil
	w.lg.Add("admit %s replica %d admitted=%v reference-refuses=%q", a.S, a.N, admitted, refuse)
	if os.Getenv("VERIF_DEBUG_SEED") != "" {
		fmt.Printf("  admit %s at replica %d: admitted=%v err=%v puppet-err=%v reference: %q\n", a.S, a.N, admitted, err, perr, refuse)
	}
	if admitted {
		w.out.Probes["admitted"]++
		inc.Sw.StopPeerGracefully(peer)
		if refuse != "" {
			w.viol("C20", "peer-admitted-against-the-rules", a.S, "replica %d admitted a peer (%s) that must be refused: %s (validator set %s)", a.N, a.S, refuse, w.showVals(w.valRef))
		}
	} else if refuse == "" {
		w.out.Probes["legitimate-peer-refused:"+a.S]++
	}
}

//go:debug randseednop=0

// Package execsim: one chain, many replicas. The harness builds a chain of
// blocks from a generated transaction stream (it holds the validator keys and
// signs the commits); R real full nodes (Angine + EVM application over
// simulated disks) execute that same chain through the three calls of the
// fast-sync executor (SaveBlock, ApplyBlock, Save), each with its own process
// history: clean restarts between blocks, crashes at a seeded durable write
// followed by recovery, and a different number of signature-verifier
// goroutines. Properties C05 and C09.
package execsim

import (
	"bytes"
	"crypto/ecdsa"
	"crypto/sha256"
	"encoding/json"
	"fmt"
	"math/big"
	mrand "math/rand"
	"os"
	"runtime"
	"sort"
	"strings"
	"sync"
	"testing"
	"testing/synctest"
	"time"

	"github.com/dappledger/AnnChain/chain/app/evm"
	rtypes "github.com/dappledger/AnnChain/chain/types"
	"github.com/dappledger/AnnChain/eth/common"
	etypes "github.com/dappledger/AnnChain/eth/core/types"
	ethcrypto "github.com/dappledger/AnnChain/eth/crypto"
	"github.com/dappledger/AnnChain/eth/rlp"
	crypto "github.com/dappledger/AnnChain/gemmill/go-crypto"
	gcmn "github.com/dappledger/AnnChain/gemmill/modules/go-common"
	"github.com/dappledger/AnnChain/gemmill/types"
	"github.com/dappledger/AnnChain/simhook"

	"verif/simrt"
	"verif/sims/fullnode"
)

type config struct {
	Seed     uint64 `json:"seed"`
	Replicas int    `json:"replicas"`
	Accounts int    `json:"accounts"`
	PartSize int    `json:"part_size"`
	Powers   []int64 `json:"validator_powers,omitempty"` // C14: several validators held by the harness
	BlockSize int    `json:"block_size,omitempty"`       // C19: the pool bounds are ten times this
}

var runtimes = [][]byte{
	common.Hex2Bytes("602a60005500"),                       // SSTORE slot0 = 42
	common.Hex2Bytes("60006000a000"),                       // LOG0
	common.Hex2Bytes("60006000fd"),                         // REVERT
	common.Hex2Bytes("33ff"),                               // SELFDESTRUCT(caller)
	common.Hex2Bytes("60006000600060006000600461fffff100"), // CALL identity precompile
	common.Hex2Bytes("6000600060006000600060fe61fffff100"), // CALL governance precompile with empty input
	common.Hex2Bytes("60005460010160005500"),               // slot0++
	common.Hex2Bytes("600760005560006000a060006000fd"),     // SSTORE slot0 = 7, LOG0, REVERT
	common.Hex2Bytes("6009600155fe"),                       // SSTORE slot1 = 9, INVALID
	common.Hex2Bytes("3660006000376000600036600060fe5afa00"),     // forward the call data to the governance precompile by STATICCALL
	common.Hex2Bytes("36600060003760006000366000600060fe5af100"), // forward the call data to the governance precompile by CALL
}

func jsonMarshal(v interface{}) ([]byte, error) { return json.Marshal(v) }

func initCode(rt []byte) []byte {
	// PUSHn <runtime> PUSH1 0 MSTORE PUSH1 n PUSH1 32-n RETURN
	n := len(rt)
	b := []byte{byte(0x5f + n)}
	b = append(b, rt...)
	b = append(b, 0x60, 0x00, 0x52, 0x60, byte(n), 0x60, byte(32-n), 0xf3)
	return b
}

func generate(seed uint64, prop string) simrt.Case {
	r := simrt.NewRand(seed)
	cfg := config{Seed: seed, Replicas: 3 + r.Intn(3), Accounts: 2 + r.Intn(3), PartSize: []int{256, 4096, 65536}[r.Intn(3)]}
	nblocks := 3 + r.Intn(7)
	adminProfile := prop == "C14" || prop == "C20" || (prop == "C13" && r.Chance(1, 2))
	if adminProfile {
		nv := 1 + r.Intn(4)
		for i := 0; i < nv; i++ {
			cfg.Powers = append(cfg.Powers, []int64{1, 3, 3, 5, 10}[r.Intn(5)])
		}
	}
	if prop == "C13" && r.Chance(1, 3) {
		// equal powers whose sum is divisible by three: "exactly two thirds" exists
		p := []int64{1, 3, 5}[r.Intn(3)]
		cfg.Powers = []int64{p, p, p}
	}
	if prop == "C06" {
		cfg.Replicas = 1
		nblocks = 3 + r.Intn(3)
	}
	var acts []simrt.Action
	ntx := 0
	if prop == "C19" {
		return generatePool(r, cfg)
	}
	if prop == "C12" || prop == "C01" {
		return generateNet(r, cfg)
	}
	for b := 0; b < nblocks; b++ {
		// replica histories before this block
		for rp := 1; rp < cfg.Replicas; rp++ {
			// C05 grants stops and restarts, not crashes (crash consistency is C06's subject)
			switch r.Pick([]int{60, 25, 0, 10}) {
			case 1:
				acts = append(acts, simrt.Action{K: "restart", N: rp})
			case 2:
				acts = append(acts, simrt.Action{K: "crash", N: rp, A: int64(1 + r.Intn(30))})
			case 3:
				acts = append(acts, simrt.Action{K: "routines", N: rp, A: int64(1 + r.Intn(16))})
			}
		}
		if adminProfile && b > 0 && r.Chance(1, 3) {
			// a client replays an accepted request as a read-only contract query at one replica
			acts = append(acts, simrt.Action{K: "adminquery", N: r.Intn(cfg.Replicas), A: int64(r.Intn(1 << 16))})
		}
		if prop == "C20" || (prop == "C14" && r.Chance(1, 4)) {
			// peers knock at a replica's door
			for i := 0; i < 1+r.Intn(3); i++ {
				acts = append(acts, simrt.Action{K: "admit", N: r.Intn(cfg.Replicas), S: admitVariants[r.Intn(len(admitVariants))], A: int64(r.Intn(1 << 16))})
			}
		}
		if adminProfile && b == 0 {
			// the two contracts that forward their call data to the governance precompile (by STATICCALL, by CALL)
			for _, rt := range []int64{9, 10} {
				acts = append(acts, simrt.Action{K: "tx", S: "create", N: r.Intn(cfg.Accounts), A: rt, C: int64(ntx)})
				ntx++
			}
		}
		k := 0
		if r.Chance(5, 6) {
			k = 1 + r.Intn(10)
		}
		for i := 0; i < k; i++ {
			kinds := []string{"transfer", "create", "call", "kv", "kv", "kv-bad", "badsig", "garbage", "replay", "stale", "future", "precompile", "admin-short", "admin-direct", "empty", "lowgas", "create-fail", "admin-len", "transfer-value", "create-value"}
			w := []int{10, 8, 10, 10, 6, 3, 3, 3, 5, 4, 3, 6, 0, 0, 1, 2, 2, 0, 1, 1}
			if prop == "C09" {
				w = []int{6, 6, 8, 6, 4, 5, 5, 5, 6, 5, 4, 10, 4, 3, 2, 3, 5, 5, 3, 3}
			}
			kd := kinds[r.Pick(w)]
			if adminProfile && r.Chance(1, 2) {
				kd = "admin:" + adminVariants[r.Intn(len(adminVariants))]
			}
			acts = append(acts, simrt.Action{K: "tx", S: kd, N: r.Intn(cfg.Accounts), A: int64(r.Intn(1 << 16)), B: int64(r.Intn(220)), C: int64(ntx)})
			ntx++
		}
		acts = append(acts, simrt.Action{K: "block"})
	}
	if prop == "C13" {
		acts = append(acts, simrt.Action{K: "sync", A: int64(r.Intn(1 << 16)), B: int64(r.Intn(1 << 16))})
	}
	if prop == "C06" {
		acts = append(acts, simrt.Action{K: "enumerate", A: int64(2 + r.Intn(nblocks-2)), B: int64(r.Intn(1 << 16))})
	}
	bz, _ := json.Marshal(cfg)
	return simrt.Case{Config: bz, Actions: acts}
}

// rawTx mirrors the RLP layout of a transaction so that single fields can be forged.
type rawTx struct {
	Nonce   uint64
	Price   *big.Int
	Gas     uint64
	To      *common.Address `rlp:"nil"`
	Value   *big.Int
	Data    []byte
	V, R, S *big.Int
}

type account struct {
	key  *ecdsa.PrivateKey
	addr common.Address
}

type txInfo struct {
	raw        []byte
	sender     int // account index or -1
	nonce      uint64
	kind       string
	kv         *rtypes.KV
	wellFormed bool // decodes and signature recovers
	kvOK       bool
	admin      *adminReq
	rt         int // create: which runtime
}

type world struct {
	t        *testing.T
	cfg      config
	out      *simrt.Outcome
	lg       *simrt.Log
	reg      *simrt.Registry
	env      *fullnode.Env
	base     string
	start    time.Time
	vkey     crypto.PrivKeyEd25519
	vaddr    []byte
	accts    []*account
	reps     []*fullnode.Node
	routines []int
	armed    []int64
	// reference model
	nonces          map[common.Address]uint64
	contracts       []common.Address
	contractRT      []int // runtime index of each deployed contract
	sent            []*txInfo
	kvRef           map[string][]string // key -> history of values
	chain           []*types.Block
	chainParts      []*types.PartSet
	commits         []*types.Commit
	prop            string
	next            map[common.Address]uint64
	certainInvalid  []map[int]bool
	refApp, refRcpt [][]byte
	quietStart      bool
	// C14
	vkeys          []crypto.PrivKeyEd25519 // validator key pool (the genesis validators are among them)
	valRef         map[string]int64        // reference validator set: address -> power
	caRef          map[string]bool         // reference: which members are certificate authorities
	refuseRef      map[string]bool         // reference refuse list (public key bytes)
	removedKeys    []string                // addresses of validators that were removed at some point
	valHist        map[int64]map[string]int64 // reference validator set in force after block h
	adminLog       []adminRec
	pendingTargets map[string]bool
	pendingRemoved int64
	pm             *poolModel // C19
	doBlock        func(txs []*txInfo)
	queried        map[int]bool // replicas at which an admin request was replayed as a query since the last block
}

func (w *world) viol(prop, oracle, key, f string, a ...interface{}) {
	for _, v := range w.out.Violations {
		if v.Property == prop && v.Oracle == oracle && v.Key == key {
			return
		}
	}
	w.out.Violations = append(w.out.Violations, simrt.Violation{Property: prop, Oracle: oracle, Key: key, Msg: fmt.Sprintf(f, a...), Step: w.out.Steps})
	w.lg.Add("VIOLATION %s %s", oracle, key)
}

func (w *world) call(inc *fullnode.Inc, site string, f func()) bool {
	done := false
	w.reg.GoAs(inc, site, func() {
		f()
		done = true
	})
	synctest.Wait()
	// the signature verifier polls with microsecond sleeps: let the simulated clock pass
	for i := 0; i < 20000 && !done && !inc.Life.Dead(); i++ {
		time.Sleep(5 * time.Microsecond)
		synctest.Wait()
	}
	return done
}

func (w *world) startReplica(nd *fullnode.Node) bool {
	inc := nd.NewInc()
	ok := w.call(inc, "build", func() {
		inc.Build(w.env)
		inc.StartEvents()
	})
	if !ok && !w.quietStart {
		if inc.PanicSite != "" || inc.Exited != "" {
			w.viol("C06", "recovery-failed", failReason(inc), "replica %d did not come up from its disk: %s %s", nd.ID, inc.PanicVal, inc.Exited)
		}
	}
	return ok
}

// failReason: a stable short name for why a node did not start.
func failReason(inc *fullnode.Inc) string {
	v := inc.PanicVal + inc.Exited
	switch {
	case strings.Contains(v, "is higher than core"):
		return "app-height-above-core"
	case strings.Contains(v, "height mismatch"):
		return "state-store-height-mismatch"
	case strings.Contains(v, "Unexpected state.AppHash"):
		return "unexpected-state-apphash"
	}
	return fullnode.PanicKey(inc.PanicVal, inc.PanicStk)
}

func (w *world) mkTx(a simrt.Action) *txInfo {
	ti := &txInfo{kind: a.S, sender: a.N}
	acct := w.accts[a.N%len(w.accts)]
	if w.next == nil {
		w.next = map[common.Address]uint64{}
	}
	if w.next[acct.addr] < w.nonces[acct.addr] {
		w.next[acct.addr] = w.nonces[acct.addr]
	}
	nonce := w.next[acct.addr]
	switch a.S {
	case "transfer", "create", "call", "kv", "precompile", "admin-direct", "admin-short", "create-fail", "admin-len":
		w.next[acct.addr]++ // the following transactions of this account continue from here
	}
	var areq *adminReq
	if strings.HasPrefix(a.S, "admin:") {
		if areq = w.mkAdmin(strings.TrimPrefix(a.S, "admin:"), a, acct, nonce); areq == nil {
			a.S = "transfer"
			ti.kind = a.S
		}
		w.next[acct.addr]++
	}
	sign := func(tx *etypes.Transaction, key *ecdsa.PrivateKey) []byte {
		stx, err := etypes.SignTx(tx, etypes.HomesteadSigner{}, key)
		if err != nil {
			panic(err)
		}
		bz, _ := rlp.EncodeToBytes(stx)
		return bz
	}
	const gas = 5000000
	zero := big.NewInt(0)
	ti.wellFormed = true
	if areq != nil {
		ti.admin = areq
		ti.raw = sign(w.adminTx(areq, acct, nonce), acct.key)
		ti.nonce = nonce
		if at, ok, _ := w.refAuthorised(areq.cmd, areq.from, acct.addr, nonce); ok {
			var pk crypto.PubKeyEd25519
			copy(pk[:], at.PubKey)
			w.pendingTargets[string(pk.Address())] = true
			if at.Cmd == types.ValidatorCmdRemoveNode {
				w.pendingRemoved += w.valRef[string(pk.Address())]
			}
		}
		return ti
	}
	switch a.S {
	case "transfer":
		to := w.accts[int(a.A)%len(w.accts)].addr
		ti.raw = sign(etypes.NewTransaction(nonce, to, zero, gas, zero, nil), acct.key)
	case "create":
		rt := runtimes[int(a.A)%len(runtimes)]
		ti.rt = int(a.A) % len(runtimes)
		ti.raw = sign(etypes.NewContractCreation(nonce, zero, gas, zero, initCode(rt)), acct.key)
	case "transfer-value", "create-value":
		// every account of the simulated chain has balance 0: a transaction that carries value cannot be paid
		// for; it is not valid, does not move the nonce, and its bytes stay as invalid however often they return
		v := big.NewInt(1 + a.A%1000)
		if a.S == "transfer-value" {
			ti.raw = sign(etypes.NewTransaction(nonce, w.accts[int(a.A)%len(w.accts)].addr, v, gas, zero, nil), acct.key)
		} else {
			ti.raw = sign(etypes.NewContractCreation(nonce, v, gas, zero, initCode(runtimes[0])), acct.key)
		}
	case "create-fail":
		// a contract creation whose init code fails (REVERT, INVALID, stack underflow, jump to nowhere, out of gas):
		// the transaction is valid, the sender's nonce moves, no contract appears
		codes := [][]byte{common.Hex2Bytes("60006000fd"), {0xfe}, {0x01}, common.Hex2Bytes("600556"), common.Hex2Bytes("5b600056")}
		ti.raw = sign(etypes.NewContractCreation(nonce, zero, gas, zero, codes[int(a.A)%len(codes)]), acct.key)
	case "admin-len":
		// the governance precompile called directly, in the caller's own name, with every boundary value of the
		// announced length in front of a body of seeded size
		body := simrt.NewRand(uint64(a.A) + 5).Bytes(int(a.B))
		total := uint64(20 + len(body))
		lens := []uint64{0, 1, 19, 20, 21, total - 1, total, total + 1, total + 32, 1 << 32, ^uint64(0), ^uint64(0) - 31, ^uint64(0) - 32}
		l := lens[int(a.A/7)%len(lens)]
		data := append(common.LeftPadBytes(new(big.Int).SetUint64(l).Bytes(), 32), acct.addr.Bytes()...)
		data = append(data, body...)
		ti.raw = sign(etypes.NewTransaction(nonce, common.BytesToAddress([]byte{0xfe}), zero, gas, zero, data), acct.key)
	case "call":
		if len(w.contracts) == 0 {
			ti.raw = sign(etypes.NewTransaction(nonce, common.BytesToAddress([]byte{0x77}), zero, gas, zero, []byte{1, 2, 3}), acct.key)
		} else {
			ti.raw = sign(etypes.NewTransaction(nonce, w.contracts[int(a.A)%len(w.contracts)], zero, gas, zero, nil), acct.key)
		}
	case "kv", "kv-bad":
		kv := &rtypes.KV{Key: []byte(fmt.Sprintf("k%d", a.A%5)), Value: []byte(fmt.Sprintf("v%d-%d", a.C, a.A))}
		payload, _ := rlp.EncodeToBytes(kv)
		if a.S == "kv-bad" {
			payload = payload[:len(payload)/2]
		} else {
			ti.kv, ti.kvOK = kv, true
		}
		ti.raw = sign(etypes.NewTransaction(nonce, common.Address{}, zero, gas, zero, append(append([]byte{}, rtypes.KVTxType...), payload...)), acct.key)
	case "badsig":
		// a well-formed transaction whose signature cannot be valid (s = 0)
		bz := sign(etypes.NewTransaction(nonce, acct.addr, zero, gas, zero, nil), acct.key)
		var rt rawTx
		if err := rlp.DecodeBytes(bz, &rt); err != nil {
			panic(err)
		}
		rt.S = big.NewInt(0)
		ti.raw, _ = rlp.EncodeToBytes(&rt)
		ti.wellFormed = false
	case "garbage":
		rr := simrt.NewRand(uint64(a.A)*31 + uint64(a.C))
		ti.raw = rr.Bytes(1 + int(a.B))
		ti.wellFormed = false
		ti.sender = -1
	case "empty":
		ti.raw = []byte{}
		ti.wellFormed = false
		ti.sender = -1
	case "replay":
		if len(w.sent) == 0 {
			ti.raw = sign(etypes.NewTransaction(nonce, acct.addr, zero, gas, zero, nil), acct.key)
		} else {
			old := w.sent[int(a.A)%len(w.sent)]
			c := *old
			c.kind = "replay:" + old.kind
			return &c
		}
	case "stale":
		n := nonce
		if n > 0 {
			n--
		} else {
			n = 5
		}
		ti.raw = sign(etypes.NewTransaction(n, acct.addr, zero, gas, zero, nil), acct.key)
		ti.nonce = n
		return ti
	case "future":
		ti.raw = sign(etypes.NewTransaction(nonce+1+uint64(a.A%3), acct.addr, zero, gas, zero, nil), acct.key)
		ti.nonce = nonce + 1 + uint64(a.A%3)
		return ti
	case "precompile":
		addr := common.BytesToAddress([]byte{byte(1 + a.A%8)})
		rr := simrt.NewRand(uint64(a.A) + 17)
		ti.raw = sign(etypes.NewTransaction(nonce, addr, zero, gas, zero, rr.Bytes(int(a.B))), acct.key)
	case "admin-short":
		// the governance precompile at 0xfe with a payload shorter than its fixed header
		ti.raw = sign(etypes.NewTransaction(nonce, common.BytesToAddress([]byte{0xfe}), zero, gas, zero, bytes.Repeat([]byte{1}, int(a.B%52))), acct.key)
	case "admin-direct":
		rr := simrt.NewRand(uint64(a.A) + 99)
		ti.raw = sign(etypes.NewTransaction(nonce, common.BytesToAddress([]byte{0xfe}), zero, gas, zero, rr.Bytes(52+int(a.B))), acct.key)
	case "lowgas":
		ti.raw = sign(etypes.NewTransaction(nonce, acct.addr, zero, uint64(a.A%21000), zero, nil), acct.key)
		ti.kind = "lowgas"
	default:
		ti.raw = []byte("?")
		ti.wellFormed = false
	}
	ti.nonce = nonce
	return ti
}

// expected: the reference model's verdict for a transaction at this point of the chain.
// It returns (valid, certain): lowgas is only judged differentially.
func (w *world) expected(ti *txInfo) (bool, bool) {
	if !ti.wellFormed || ti.sender < 0 {
		return false, true
	}
	acct := w.accts[ti.sender%len(w.accts)]
	if ti.nonce != w.nonces[acct.addr] {
		return false, true
	}
	k := baseKind(ti.kind)
	switch k {
	case "kv-bad", "transfer-value", "create-value":
		return false, true
	case "lowgas":
		return false, false
	}
	return true, true
}

func txHash(raw []byte) []byte {
	return common.BytesToHash(types.Tx(raw).Hash()).Bytes()
}

func (w *world) buildBlock(txs []*txInfo) (*types.Block, *types.PartSet) {
	h := int64(len(w.chain) + 1)
	ref := w.reps[0].Inc
	st := ref.State
	var raws []types.Tx
	for _, t := range txs {
		raws = append(raws, types.Tx(t.raw))
	}
	var commit *types.Commit
	if h == 1 {
		commit = &types.Commit{}
	} else {
		commit = w.commits[h-2]
	}
	proposer := w.vaddr
	if !st.Validators.HasAddress(proposer) {
		proposer = st.Validators.Validators[0].Address // the first genesis validator may have been removed (C14)
	}
	blk, _ := types.MakeBlock(h, fullnode.ChainID, raws, nil, commit, proposer, st.LastBlockID, st.Validators.Hash(), st.AppHash, st.ReceiptsHash, w.cfg.PartSize)
	blk.Header.Time = w.start.Add(time.Duration(h) * time.Second)
	parts := blk.MakePartSet(w.cfg.PartSize)
	id := types.BlockID{Hash: blk.Hash(), PartsHeader: parts.Header()}
	w.commits = append(w.commits, w.signCommit(st.Validators, h, id))
	w.chain = append(w.chain, blk)
	w.chainParts = append(w.chainParts, parts)
	return blk, parts
}

// apply runs the three calls of the fast-sync executor on a replica.
func (w *world) apply(nd *fullnode.Node, h int64) (ok bool) {
	inc := nd.Inc
	blk, parts, commit := w.chain[h-1], w.chainParts[h-1], w.commits[h-1]
	evm.VerifSetValidateRoutines(w.routines[nd.ID%len(w.routines)])
	var err error
	done := w.call(inc, "apply", func() {
		if inc.Store.Height() < h {
			inc.Store.SaveBlock(blk, parts, commit)
		}
		if inc.State.LastBlockHeight < h {
			if err = inc.State.ApplyBlock(inc.Evsw, blk, parts.Header(), inc.Pool, -1); err != nil {
				return
			}
			inc.State.Save()
		}
	})
	if err != nil {
		w.viol("C05", "replica-refuses-block", fmt.Sprintf("h%d", 0), "replica %d refuses block %d that the reference replica executed: %v", nd.ID, h, err)
		return false
	}
	return done
}

func (w *world) query(inc *fullnode.Inc, q byte, load []byte) (code types.CodeType, data []byte, ok bool) {
	ok = w.call(inc, "query", func() {
		r := inc.App.Query(append([]byte{q}, load...))
		code, data = r.Code, r.Data
	})
	return
}

func (w *world) nonceOf(inc *fullnode.Inc, a common.Address) uint64 {
	_, data, ok := w.query(inc, rtypes.QueryType_Nonce, a.Bytes())
	if !ok {
		return ^uint64(0)
	}
	var n uint64
	rlp.DecodeBytes(data, &n)
	return n
}

// fingerprint of everything a client can ask a replica about (fixed query set).
func (w *world) fingerprint(inc *fullnode.Inc) string {
	h := sha256.New()
	for _, a := range w.accts {
		fmt.Fprintf(h, "n:%d;", w.nonceOf(inc, a.addr))
	}
	for _, t := range w.sent {
		c, d, _ := w.query(inc, rtypes.QueryType_Receipt, txHash(t.raw))
		fmt.Fprintf(h, "r:%d:%x;", c, sha256.Sum256(d))
	}
	for i := 0; i < 5; i++ {
		c, d, _ := w.query(inc, rtypes.QueryType_Key, []byte(fmt.Sprintf("k%d", i)))
		fmt.Fprintf(h, "k:%d:%s;", c, d)
		load := append([]byte{0, 0, 0, 1, 0, 0, 0, 50}, []byte(fmt.Sprintf("k%d", i))...)
		c, d, _ = w.query(inc, rtypes.QueryType_Key_Update_History, load)
		fmt.Fprintf(h, "kh:%d:%x;", c, sha256.Sum256(d))
	}
	for _, ca := range w.contracts {
		c, d, _ := w.query(inc, rtypes.QueryType_Existence, ca.Bytes())
		fmt.Fprintf(h, "e:%d:%x;", c, d)
	}
	return fmt.Sprintf("%x", h.Sum(nil)[:8])
}

func execute(t *testing.T, prop string, c simrt.Case) (out simrt.Outcome) {
	out = simrt.Outcome{Faults: map[string]int{}, Probes: map[string]int{}, Evals: map[string]int{}}
	var lg simrt.Log
	lg.Keep = os.Getenv("VERIF_DUMPLOG") != ""
	defer func() {
		if lg.Keep {
			fmt.Println(strings.Join(lg.Text, "\n"))
		}
	}()
	rp := simrt.Bubble(t, func() { run(t, prop, c, &out, &lg) })
	if rp != nil {
		out.Violations = append(out.Violations, simrt.Violation{Property: prop, Oracle: "harness-panic", Key: "root", Msg: fmt.Sprint(rp)})
	}
	out.LogHash = lg.Hash()
	if (prop == "C12" || prop == "C01") && len(out.Violations) > 0 && os.Getenv("VERIF_NO_CONFIRM") == "" {
		// the network workload leaves the order of goroutines inside a slice of simulated time to the runtime;
		// a violation is reported only if two more executions of the same case show it too
		for k := 0; k < 2; k++ {
			o2 := simrt.Outcome{Faults: map[string]int{}, Probes: map[string]int{}, Evals: map[string]int{}}
			var lg2 simrt.Log
			simrt.Bubble(t, func() { run(t, prop, c, &o2, &lg2) })
			var keep []simrt.Violation
			for _, v := range out.Violations {
				for _, v2 := range o2.Violations {
					if v.Property == v2.Property && v.Oracle == v2.Oracle && v.Key == v2.Key {
						keep = append(keep, v)
						break
					}
				}
			}
			if len(keep) < len(out.Violations) {
				out.Probes["violation_not_reproduced_on_re-execution"] += len(out.Violations) - len(keep)
			}
			out.Violations = keep
			if len(keep) == 0 {
				break
			}
		}
	}
	return out
}

func run(t *testing.T, prop string, c simrt.Case, out *simrt.Outcome, lg *simrt.Log) {
	var cfg config
	json.Unmarshal(c.Config, &cfg)
	mrand.Seed(int64(cfg.Seed)) // the repository draws from the global math/rand source (gossip picks, pex)
	w := &world{t: t, cfg: cfg, out: out, lg: lg, reg: simrt.NewRegistry(), prop: prop, nonces: map[common.Address]uint64{}, kvRef: map[string][]string{}}
	simhook.GoHook = w.reg.Go
	// the goroutines a dead incarnation leaves behind stop at their next lock attempt
	// ... and, in the workloads that run reactors, a seeded share of the lock attempts of live nodes is held up
	// for some microseconds of simulated time, so that different seeds see different interleavings of a node's
	// goroutines around its locks
	jitter := simrt.NewRand(cfg.Seed ^ 0x6a69747465)
	jitterOn := prop == "C13" || prop == "C12" || prop == "C01"
	var jmu sync.Mutex
	heldUp := 0
	defer func() {
		jmu.Lock()
		out.Probes["lock_attempt_held_up"] += heldUp
		jmu.Unlock()
	}()
	simhook.YieldHook = func(site string) {
		inc, _ := w.reg.Current().(*fullnode.Inc)
		if inc == nil {
			return
		}
		if inc.Life.Dead() {
			select {}
		}
		if jitterOn {
			jmu.Lock()
			d := 0
			if jitter.Intn(16) == 0 {
				d = 1 + jitter.Intn(400)
				heldUp++ // (under jmu; added to the probes when the run ends: the probe map belongs to the harness goroutine)
			}
			jmu.Unlock()
			if d > 0 {
				time.Sleep(time.Duration(d) * time.Microsecond)
			}
		}
	}
	fullnode.AdminReg = w.reg
	gcmn.VerifExitHook = func(s string) { panic(fullnode.ExitPanic{S: s}) }
	gcmn.VerifPointHook = func(op, path string) error {
		if inc, _ := w.reg.Current().(*fullnode.Inc); inc != nil {
			return inc.Life.BeforeWrite("file:" + op)
		}
		return nil
	}
	defer func() { simhook.GoHook, simhook.YieldHook, gcmn.VerifExitHook, gcmn.VerifPointHook = nil, nil, nil, nil }()
	base, err := os.MkdirTemp("", "execsim-")
	if err != nil {
		panic(err)
	}
	defer os.RemoveAll(base)
	w.base, w.start = base, time.Now()
	w.initValidators()
	w.pendingTargets = map[string]bool{}
	gen := &types.GenesisDoc{GenesisTime: w.start, ChainID: fullnode.ChainID, Validators: w.genesisValidators()}
	w.env = &fullnode.Env{Reg: w.reg, Genesis: gen, BlockPartSize: cfg.PartSize, Plugins: "adminOp", BlockSize: cfg.BlockSize, AuthByCA: prop != "C13"}
	for i := 0; i < cfg.Accounts; i++ {
		h := sha256.Sum256([]byte(fmt.Sprintf("execsim-acct-%d-%d", cfg.Seed, i)))
		k, err := ethcrypto.ToECDSA(h[:])
		if err != nil {
			panic(err)
		}
		w.accts = append(w.accts, &account{k, ethcrypto.PubkeyToAddress(k.PublicKey)})
	}
	if prop == "C12" || prop == "C01" {
		w.runNet(c)
		return
	}
	for i := 0; i < cfg.Replicas; i++ {
		key := crypto.GenPrivKeyEd25519FromSecret([]byte(fmt.Sprintf("execsim-rep-%d-%d", cfg.Seed, i)))
		nd := fullnode.NewNode(i, key, base)
		w.reps = append(w.reps, nd)
		w.routines = append(w.routines, 1+(i*5)%16)
		w.armed = append(w.armed, 0)
		if !w.startReplica(nd) {
			w.viol(prop, "replica-start-failed", "start", "replica %d did not start: %s", i, nd.Inc.PanicVal)
			return
		}
	}
	if prop == "C19" {
		w.poolInit()
	}
	var pending []*txInfo
	finger := map[int64]string{}
	doBlock := func(txs []*txInfo) {
		blk, _ := w.buildBlock(txs)
		h := blk.Height
		lg.Add("block %d txs %d", h, len(txs))
		// reference model verdicts, in block order
		type verdict struct {
			valid, certain bool
		}
		verdicts := make([]verdict, len(txs))
		pre := map[common.Address]uint64{}
		for k, v := range w.nonces {
			pre[k] = v
		}
		for i, ti := range txs {
			v, cert := w.expected(ti)
			verdicts[i] = verdict{v, cert}
			if os.Getenv("VERIF_DEBUG_SEED") != "" {
				fmt.Printf("  block %d tx %d kind %s sender %d nonce %d -> model valid=%v certain=%v\n", h, i, ti.kind, ti.sender, ti.nonce, v, cert)
			}
			if v && cert {
				acct := w.accts[ti.sender%len(w.accts)]
				k := baseKind(ti.kind)
				if k == "create" {
					w.contracts = append(w.contracts, ethcrypto.CreateAddress(acct.addr, w.nonces[acct.addr]))
					w.contractRT = append(w.contractRT, ti.rt)
				}
				w.nonces[acct.addr]++
				if ti.kvOK {
					w.kvRef[string(ti.kv.Key)] = append(w.kvRef[string(ti.kv.Key)], string(ti.kv.Value))
				}
			}
		}
		// ---- C14 reference: which of the requests carried by valid transactions are authorised
		preVals := map[string]int64{}
		for k, v := range w.valRef {
			preVals[k] = v
		}
		var authorised []*types.ValidatorAttr
		nreq := 0
		{
			nn := map[common.Address]uint64{}
			for k, v := range pre {
				nn[k] = v
			}
			for i, ti := range txs {
				if !(verdicts[i].valid && verdicts[i].certain) {
					continue
				}
				acct := w.accts[ti.sender%len(w.accts)]
				txNonce := nn[acct.addr]
				nn[acct.addr]++
				if ti.admin == nil {
					continue
				}
				nreq++
				at, ok, why := w.refAuthorised(ti.admin.cmd, ti.admin.from, acct.addr, txNonce)
				out.Probes["admin:"+ti.admin.variant]++
				if ok {
					authorised = append(authorised, at)
					out.Probes["admin-authorised"]++
				} else {
					out.Probes["admin-refused:"+strings.TrimSpace(strings.Map(func(r rune) rune {
						if r >= '0' && r <= '9' {
							return -1
						}
						return r
					}, why))]++
				}
				w.adminLog = append(w.adminLog, adminRec{cmd: ti.admin.cmd, sender: acct.addr, accepted: ok})
				lg.Add("admin %s authorised=%v %s", ti.admin.variant, ok, why)
				if os.Getenv("VERIF_DEBUG_SEED") != "" {
					fmt.Printf("  block %d tx %d admin %s authorised=%v %s\n", h, i, ti.admin.variant, ok, why)
				}
			}
		}
		w.refApply(preVals, authorised)
		if w.valHist == nil {
			w.valHist = map[int64]map[string]int64{}
		}
		vh := map[string]int64{}
		for k, v := range w.valRef {
			vh[k] = v
		}
		w.valHist[h] = vh
		w.pendingTargets, w.pendingRemoved = map[string]bool{}, 0
		queried := w.queried
		w.queried = nil
		w.sent = append(w.sent, txs...)
		drop := map[int]bool{}
		for i := range txs {
			if verdicts[i].certain && !verdicts[i].valid {
				drop[i] = true
			}
		}
		w.certainInvalid = append(w.certainInvalid, drop)
		// every replica executes the block
		for i, nd := range w.reps {
			if !nd.Inc.Alive() {
				w.startReplica(nd)
			}
			if os.Getenv("VERIF_DEBUG_SEED") != "" {
				nd.Inc.Life.LogWrites(true)
			}
			if w.armed[i] > 0 {
				nd.Inc.Life.ArmCrash(int(w.armed[i]))
				w.armed[i] = 0
				out.Faults["crash_armed_in_apply"]++
			}
			ok := w.apply(nd, h)
			inc := nd.Inc
			if !ok {
				if inc.PanicSite != "" {
					w.viol("C09", "node-panic-while-executing", fullnode.PanicKey(inc.PanicVal, inc.PanicStk), "replica %d panicked on goroutine %s while executing block %d: %.300s", nd.ID, inc.PanicSite, h, inc.PanicVal)
					break
				}
				if inc.Life.Dead() {
					// crashed at the armed write: restart, recover, and finish the block if recovery did not
					out.Faults["crash_fired_in_apply"]++
					inc.Quiesce()
					if os.Getenv("VERIF_DEBUG_SEED") != "" {
						fmt.Printf("replica %d crashed in block %d: %s\n  writes before: %v\n", nd.ID, h, inc.Life.Reason, inc.Life.WriteLog())
					}
					if !w.startReplica(nd) {
						break
					}
					if !w.apply(nd, h) && nd.Inc.PanicSite != "" {
						w.viol("C09", "node-panic-while-executing", fullnode.PanicKey(nd.Inc.PanicVal, nd.Inc.PanicStk), "replica %d panicked after recovery while executing block %d: %.300s", nd.ID, h, nd.Inc.PanicVal)
						break
					}
				} else {
					if os.Getenv("VERIF_DUMPSTACKS") != "" {
						buf := make([]byte, 1<<20)
						n := runtime.Stack(buf, true)
						os.Stderr.Write(buf[:n])
					}
					w.viol("C12", "apply-blocked", "wedge", "replica %d neither finished nor died executing block %d", nd.ID, h)
					break
				}
			}
			nd.Inc.Life.Disarm()
		}
		if len(out.Violations) > 0 {
			return
		}
		if w.pm != nil {
			w.poolAfterBlock(txs)
			w.poolReap(reapAll, "after-block")
			if len(out.Violations) > 0 {
				return
			}
		}
		// ---- C14: the validator set for the next height, on every replica, is the reference set
		if prop == "C14" || nreq > 0 {
			// replicas that were not queried first: a defect in request handling shows there
			order := append([]*fullnode.Node{}, w.reps...)
			sort.SliceStable(order, func(i, j int) bool { return !queried[order[i].ID] && queried[order[j].ID] })
			for _, nd := range order {
				out.Evals["C14.validator-set"]++
				got := valsOf(nd.Inc.State.Validators)
				if sameVals(got, w.valRef) {
					continue
				}
				if queried[nd.ID] {
					w.viol("C14", "query-changed-the-set", "query-replay", "after block %d replica %d has validators %s, the reference %s: an accepted request replayed as a read-only query at one replica took effect there", h, nd.ID, w.showVals(got), w.showVals(w.valRef))
				} else if len(authorised) == 0 && sameVals(w.valRef, preVals) {
					w.viol("C14", "unauthorised-request-changed-the-set", w.blame(txs, got), "after block %d (no authorised request in it) replica %d has validators %s, the set was %s", h, nd.ID, w.showVals(got), w.showVals(preVals))
				} else {
					w.viol("C14", "validator-set-differs-from-reference", w.blame(txs, got), "after block %d replica %d has validators %s; applying exactly the authorised requests gives %s (before the block %s)", h, nd.ID, w.showVals(got), w.showVals(w.valRef), w.showVals(preVals))
				}
				break
			}
		}
		if len(out.Violations) > 0 {
			return
		}
		// ---- C05: all replicas agree with the reference replica
		ref := w.reps[0].Inc
		w.refApp = append(w.refApp, append([]byte{}, ref.State.AppHash...))
		w.refRcpt = append(w.refRcpt, append([]byte{}, ref.State.ReceiptsHash...))
		out.Evals["C05.hashes"]++
		for _, nd := range w.reps[1:] {
			st := nd.Inc.State
			if st.LastBlockHeight != h {
				w.viol("C05", "replica-behind", "height", "replica %d is at height %d after block %d", nd.ID, st.LastBlockHeight, h)
				continue
			}
			if !bytes.Equal(st.AppHash, ref.State.AppHash) {
				w.viol("C05", "apphash-differs", "apphash", "after block %d replica %d (incarnation %d, %d verifier goroutines) has application hash %X, the reference replica %X", h, nd.ID, nd.Inc.Gen, w.routines[nd.ID], st.AppHash[:4], ref.State.AppHash[:4])
			}
			if !bytes.Equal(st.ReceiptsHash, ref.State.ReceiptsHash) {
				w.viol("C05", "receiptshash-differs", "receipts", "after block %d replica %d (incarnation %d) has receipts hash %X, the reference replica (incarnation %d) %X", h, nd.ID, nd.Inc.Gen, fp(st.ReceiptsHash), ref.Gen, fp(ref.State.ReceiptsHash))
			}
		}
		out.Evals["C05.queries"]++
		f0 := w.fingerprint(ref)
		finger[h] = f0
		for _, nd := range w.reps[1:] {
			if f := w.fingerprint(nd.Inc); f != f0 {
				w.viol("C05", "query-results-differ", "queries", "after block %d replica %d answers the fixed query set differently from the reference replica", h, nd.ID)
			}
		}
		// ---- C09: verdicts against the reference nonce model (on the reference replica)
		for _, acct := range w.accts {
			out.Evals["C09.nonce"]++
			got := w.nonceOf(ref, acct.addr)
			want := w.nonces[acct.addr]
			uncertain := false
			for i, ti := range txs {
				if !verdicts[i].certain && ti.sender >= 0 && w.accts[ti.sender%len(w.accts)].addr == acct.addr {
					uncertain = true
				}
			}
			if uncertain {
				// a transaction judged only differentially may or may not have counted
				if got == want+1 {
					w.nonces[acct.addr] = got
				}
				continue
			}
			if got != want {
				w.viol("C09", "nonce-model-mismatch", "nonce", "after block %d account %d has nonce %d; applying exactly the transactions whose nonce matched gives %d (was %d before the block)", h, indexOf(w.accts, acct), got, want, pre[acct.addr])
			}
		}
		for i, ti := range txs {
			if !verdicts[i].certain {
				continue
			}
			out.Evals["C09.receipt"]++
			code, _, _ := w.query(ref, rtypes.QueryType_Receipt, txHash(ti.raw))
			has := code == types.CodeType_OK
			k := baseKind(ti.kind)
			isKV := k == "kv" || k == "kv-bad"
			if verdicts[i].valid && !isKV && !has {
				w.viol("C09", "valid-tx-without-receipt", k, "transaction %d of block %d (%s) is valid by the nonce model but has no receipt", i, h, ti.kind)
			}
			if !verdicts[i].valid && has && !w.validEarlier(ti) {
				w.viol("C09", "invalid-tx-with-receipt", k, "transaction %d of block %d (%s) is invalid by the nonce model but has a receipt", i, h, ti.kind)
			}
		}
		for key, hist := range w.kvRef {
			out.Evals["C09.kv"]++
			_, d, _ := w.query(ref, rtypes.QueryType_Key, []byte(key))
			if string(d) != hist[len(hist)-1] {
				w.viol("C09", "kv-value-mismatch", "kv", "key %s holds %q, the last valid key-value transaction wrote %q", key, d, hist[len(hist)-1])
			}
		}
	}
	w.doBlock = doBlock
	for _, a := range c.Actions {
		out.Steps++
		if len(out.Violations) > 0 {
			break
		}
		switch a.K {
		case "tx":
			ti := w.mkTx(a)
			pending = append(pending, ti)
		case "restart":
			if (a.N > 0 || w.pm != nil) && a.N < len(w.reps) {
				nd := w.reps[a.N]
				nd.Inc.Life.Kill("clean restart")
				nd.Inc.Quiesce()
				out.Faults["replica_restart"]++
				w.startReplica(nd)
				if w.pm != nil && a.N == 0 {
					w.poolReset("restart")
				}
			}
		case "crash":
			if a.N > 0 && a.N < len(w.reps) {
				w.armed[a.N] = a.A
			}
		case "sync":
			w.syncRun(a)
		case "admit":
			w.admit(a)
		case "adminquery":
			w.adminQuery(a)
		case "submit":
			w.poolSubmit(a)
			w.poolReap(-1, "after-submit")
		case "reap":
			w.poolReap(int(a.A), "probe")
		case "idle":
			w.poolAdvance(a.A)
			w.poolReap(-1, "after-idle")
		case "flush":
			if inc := w.reps[0].Inc; inc.Alive() {
				w.call(inc, "pool-flush", func() { inc.Pool.Flush() })
				w.poolReset("flush")
				out.Faults["pool_flush"]++
			}
		case "drain":
			w.poolDrain(func(txs []*txInfo) bool {
				doBlock(txs)
				return len(out.Violations) == 0
			})
		case "enumerate":
			w.enumerate(a.A, a.B)
		case "routines":
			if a.N > 0 && a.N < len(w.reps) {
				w.routines[a.N] = int(a.A)
				out.Faults["verifier_goroutines_changed"]++
			}
		case "block":
			txs := pending
			pending = nil
			if a.S == "pool" {
				txs = w.poolSelect(a)
			}
			doBlock(txs)
		}
	}
	// ---- C09 differential twin: the chain without its invalid transactions gives the same state
	if len(out.Violations) == 0 && len(w.chain) > 0 && (prop == "C09" || cfg.Seed%3 == 0) {
		w.twin(false)
		if len(out.Violations) == 0 {
			w.twin(true)
		}
	}
	for _, nd := range w.reps {
		if nd.Inc != nil {
			nd.Inc.Life.Kill("end")
			nd.Inc.Quiesce()
		}
	}
	synctest.Wait()
	nf := 0
	for _, n := range out.Faults {
		nf += n
	}
	out.Nontrivial = nf > 0 && len(w.chain) > 1
	out.SimSeconds = time.Since(w.start).Seconds()
	kinds := map[string]int{}
	for _, ti := range w.sent {
		kinds[ti.kind]++
	}
	out.Sample = map[string]interface{}{"replicas": cfg.Replicas, "blocks": len(w.chain), "txs": len(w.sent), "tx_kinds": kinds, "faults": out.Faults}
	for k, n := range kinds {
		out.Probes["tx:"+k] += n
	}
}

func (w *world) validEarlier(ti *txInfo) bool {
	// a replayed transaction keeps the receipt of its first, valid occurrence
	n := 0
	for _, o := range w.sent {
		if bytes.Equal(o.raw, ti.raw) {
			n++
		}
	}
	return n > 1
}

// twin executes the same chain stripped of every transaction that left no trace on the
// reference replica's nonces (the invalid ones) on a fresh node, and compares the state.
// With failedToNull the twin keeps every transaction but replaces each one whose receipt says
// "failed" by a null transaction of the same sender and nonce (a transfer of nothing to itself, gas
// price 0): a failed execution may leave nothing behind but the nonce, so the state must be the same.
func (w *world) twin(failedToNull bool) {
	out := w.out
	out.Evals["C09.twin"]++
	key := crypto.GenPrivKeyEd25519FromSecret([]byte(fmt.Sprintf("twin-%v", failedToNull)))
	nd := fullnode.NewNode(len(w.reps)+10, key, w.base)
	w.reps = append(w.reps, nd)
	w.routines = append(w.routines, 3)
	w.armed = append(w.armed, 0)
	if !w.startReplica(nd) {
		return
	}
	// rebuild the chain: same blocks, invalid transactions removed
	ref := w.reps[0].Inc
	chain, parts, commits := w.chain, w.chainParts, w.commits
	w.chain, w.chainParts, w.commits = nil, nil, nil
	defer func() { w.chain, w.chainParts, w.commits = chain, parts, commits }()
	saveReps := w.reps
	w.reps = []*fullnode.Node{nd}
	defer func() { w.reps = saveReps }()
	byRaw := map[string]*txInfo{}
	for _, ti := range w.sent {
		byRaw[string(ti.raw)] = ti
	}
	replaced := 0
	for bi, blk := range chain {
		var keep []*txInfo
		for i, raw := range blk.Data.Txs {
			if failedToNull {
				ti := byRaw[string(raw)]
				if ti != nil && ti.sender >= 0 && !w.certainInvalid[bi][i] && ti.admin == nil && w.receiptFailed(ref, raw) {
					acct := w.accts[ti.sender%len(w.accts)]
					ntx, err := etypes.SignTx(etypes.NewTransaction(ti.nonce, acct.addr, big.NewInt(0), 5000000, big.NewInt(0), nil), etypes.HomesteadSigner{}, acct.key)
					if err == nil {
						bz, _ := rlp.EncodeToBytes(ntx)
						keep = append(keep, &txInfo{raw: bz})
						replaced++
						continue
					}
				}
				keep = append(keep, &txInfo{raw: raw})
				continue
			}
			// only transactions that are invalid beyond doubt (undecodable, unsigned, wrong nonce,
			// malformed key-value payload, replayed) are removed; the rest stays in both chains
			if w.certainInvalid[bi][i] {
				continue
			}
			keep = append(keep, &txInfo{raw: raw})
		}
		// some kept transactions may still be invalid for reasons outside the nonce model (gas);
		// the twin then simply contains them as the original does
		b2, _ := w.buildBlock(keep)
		if !w.apply(nd, b2.Height) {
			if nd.Inc.PanicSite != "" {
				w.viol("C09", "node-panic-while-executing", fullnode.PanicKey(nd.Inc.PanicVal, nd.Inc.PanicStk), "twin replica panicked executing block %d: %.200s", b2.Height, nd.Inc.PanicVal)
			}
			return
		}
	}
	if !bytes.Equal(nd.Inc.State.AppHash, ref.State.AppHash) {
		if os.Getenv("VERIF_DEBUG_SEED") != "" {
			for i, a := range w.accts {
				fmt.Printf("acct %d nonce ref %d twin %d\n", i, w.nonceOf(ref, a.addr), w.nonceOf(nd.Inc, a.addr))
			}
			for bi, blk := range chain {
				fmt.Printf("block %d: original %d txs, twin %d txs\n", bi+1, len(blk.Data.Txs), len(w.chain[bi].Data.Txs))
			}
		}
		if failedToNull {
			w.viol("C09", "failed-tx-changed-state", "twin", "the chain with its %d failed transactions replaced by null transactions of the same sender and nonce ends in application hash %X, the original chain in %X: a failed execution left more than the nonce behind", replaced, fp(nd.Inc.State.AppHash), fp(ref.State.AppHash))
		} else {
			w.viol("C09", "invalid-tx-changed-state", "twin", "the chain with its invalid transactions removed ends in application hash %X, the original chain in %X: a transaction reported invalid left a trace in the state", fp(nd.Inc.State.AppHash), fp(ref.State.AppHash))
		}
	}
	if failedToNull {
		out.Probes["failed_tx_replaced_by_null"] += replaced
	}
}

// receiptFailed: does the reference replica hold a receipt for this transaction whose status is "failed"?
func (w *world) receiptFailed(ref *fullnode.Inc, raw []byte) bool {
	code, data, ok := w.query(ref, rtypes.QueryType_Receipt, txHash(raw))
	if !ok || code != types.CodeType_OK || len(data) == 0 {
		return false
	}
	var r etypes.ReceiptForStorage
	if err := rlp.DecodeBytes(data, &r); err != nil {
		return false
	}
	return (*etypes.Receipt)(&r).Status == etypes.ReceiptStatusFailed
}

func fp(b []byte) []byte {
	if len(b) > 4 {
		return b[:4]
	}
	return b
}

func indexOf(as []*account, a *account) int {
	for i, x := range as {
		if x == a {
			return i
		}
	}
	return -1
}

func TestWorker(t *testing.T) {
	simrt.WorkerMain(t, simrt.Engine{Name: "execsim", Generate: generate, Execute: execute})
}

// TestDebug prints one case and its log.
func TestDebug(t *testing.T) {
	s := os.Getenv("VERIF_DEBUG_SEED")
	if s == "" {
		t.Skip()
	}
	var seed uint64
	fmt.Sscan(s, &seed)
	prop := os.Getenv("VERIF_PROP")
	c := generate(seed, prop)
	for i, a := range c.Actions {
		fmt.Println(i, a.String())
	}
	out := execute(t, prop, c)
	for _, v := range out.Violations {
		fmt.Printf("VIOLATION %+v\n", v)
	}
}

// ---------------------------------------------------------------------------
// C06: exhaustive single-crash enumeration over the commit of one block.

func writeClass(desc string) string {
	// "db:data/state setsync stateKey" -> "data/state setsync stateKey"; hex keys are dropped
	f := strings.Fields(desc)
	if len(f) == 0 {
		return desc
	}
	out := strings.TrimPrefix(strings.TrimPrefix(f[0], "db:"), "ethdb:")
	if len(f) > 1 {
		op := f[1]
		if i := strings.Index(op, "["); i > 0 {
			op = op[:i]
		}
		out += " " + op
	}
	if len(f) > 2 {
		k := f[2]
		printable := len(k) < 24
		for _, c := range k {
			if !(c >= 'a' && c <= 'z' || c >= 'A' && c <= 'Z' || c == ':' || c == '-' || c == '_') {
				printable = false
			}
		}
		if printable {
			out += " " + k
		} else if strings.HasPrefix(k, "H:") || strings.HasPrefix(k, "P:") || strings.HasPrefix(k, "C:") || strings.HasPrefix(k, "SC:") {
			out += " " + k[:strings.Index(k, ":")+1]
		}
	}
	return out
}

func (w *world) newVictim() *fullnode.Node {
	id := len(w.reps)
	key := crypto.GenPrivKeyEd25519FromSecret([]byte(fmt.Sprintf("victim-%d-%d", w.cfg.Seed, id)))
	nd := fullnode.NewNode(id, key, w.base)
	w.reps = append(w.reps, nd)
	w.routines = append(w.routines, 1+id%8)
	w.armed = append(w.armed, 0)
	return nd
}

func (w *world) retire(nd *fullnode.Node) {
	if nd.Inc != nil {
		nd.Inc.Life.Kill("retired")
		nd.Inc.Quiesce()
	}
	os.RemoveAll(nd.Dir)
}

// agree checks that store, state and application of a freshly recovered node agree on one height and its hashes.
func (w *world) agree(nd *fullnode.Node, key, when string) (int64, bool) {
	inc := nd.Inc
	var info types.ResultInfo
	if !w.call(inc, "info", func() { info = inc.App.Info() }) {
		w.viol("C06", "recovery-wedged", key, "%s: the application does not answer Info()", when)
		return 0, false
	}
	sh, th, ah := inc.Store.Height(), inc.State.LastBlockHeight, int64(info.LastBlockHeight)
	w.out.Evals["C06.agree"]++
	if !(sh == th && th == ah) {
		w.viol("C06", "heights-disagree", key, "%s: block store is at height %d, consensus state at %d, application at %d", when, sh, th, ah)
		return th, false
	}
	if th > 0 && th <= int64(len(w.refApp)) {
		if !bytes.Equal(inc.State.AppHash, w.refApp[th-1]) || !bytes.Equal(info.LastBlockAppHash, w.refApp[th-1]) {
			w.viol("C06", "apphash-after-recovery", key, "%s: at height %d the state holds application hash %X, the application %X, the uncrashed run %X", when, th, fp(inc.State.AppHash), fp(info.LastBlockAppHash), fp(w.refApp[th-1]))
			return th, false
		}
		if !bytes.Equal(inc.State.ReceiptsHash, w.refRcpt[th-1]) {
			w.viol("C06", "receiptshash-after-recovery", key, "%s: at height %d the state holds receipts hash %X, the uncrashed run %X", when, th, fp(inc.State.ReceiptsHash), fp(w.refRcpt[th-1]))
			return th, false
		}
	}
	return th, true
}

func (w *world) enumerate(target int64, salt int64) {
	out := w.out
	B := int64(len(w.chain))
	if target < 1 || target > B || len(out.Violations) > 0 {
		return
	}
	ref := w.reps[0].Inc
	refFinger := w.fingerprint(ref)
	// scout: how many durable writes does the commit of the target block issue, and which?
	scout := w.newVictim()
	if !w.startReplica(scout) {
		return
	}
	for h := int64(1); h < target; h++ {
		w.apply(scout, h)
	}
	scout.Inc.Life.LogWrites(true)
	w0 := scout.Inc.Life.Writes()
	w.apply(scout, target)
	W := scout.Inc.Life.Writes() - w0
	wl := scout.Inc.Life.WriteLog()
	w.retire(scout)
	out.Probes["C06_writes_in_commit"] += W
	rr := simrt.NewRand(w.cfg.Seed ^ uint64(salt))
	for k := 1; k <= W; k++ {
		class := writeClass(wl[k-1])
		nested := rr.Chance(1, 3)
		out.Cases++
		nd := w.newVictim()
		if !w.startReplica(nd) {
			w.retire(nd)
			continue
		}
		for h := int64(1); h < target; h++ {
			w.apply(nd, h)
		}
		nd.Inc.Life.ArmCrash(k)
		if w.apply(nd, target) || !nd.Inc.Life.Dead() {
			w.retire(nd) // the crash point was not reached (write counts differ): nothing to judge
			continue
		}
		out.DistinctCases++
		out.Faults["crash before: "+class]++
		nd.Inc.Quiesce()
		when := fmt.Sprintf("block %d of %d, crash before write %d of %d (%s)", target, B, k, W, class)
		started := false
		if nested {
			// a second crash while the node recovers
			j := 1 + rr.Intn(6)
			inc := nd.NewInc()
			inc.Life.ArmCrash(j)
			okb := w.call(inc, "build", func() {
				inc.Build(w.env)
				inc.StartEvents()
			})
			if okb {
				inc.Life.Disarm()
				started = true
			} else if inc.PanicSite != "" || inc.Exited != "" {
				w.viol("C06", "recovery-failed", class+" -> "+failReason(inc), "%s: the node does not come up again: %.300s %s", when, inc.PanicVal, inc.Exited)
				w.retire(nd)
				continue
			} else {
				out.Faults["crash during recovery"]++
				inc.Quiesce()
				when += fmt.Sprintf(", second crash before write %d of the recovery", j)
			}
		}
		if !started {
			w.quietStart = true
			okStart := w.startReplica(nd)
			w.quietStart = false
			if !okStart {
				inc := nd.Inc
				if inc.PanicSite != "" || inc.Exited != "" {
					w.viol("C06", "recovery-failed", class+" -> "+failReason(inc), "%s: the node does not come up again: %.300s %s", when, inc.PanicVal, inc.Exited)
				}
				w.retire(nd)
				continue
			}
		}
		if _, ok := w.agree(nd, class, when); !ok {
			w.retire(nd)
			continue
		}
		// every block that was readable before is still readable and unchanged
		for h := int64(1); h < target; h++ {
			out.Evals["C06.block-readable"]++
			meta := nd.Inc.Store.LoadBlockMeta(h)
			if meta == nil || !bytes.Equal(meta.Hash, w.chain[h-1].Hash()) {
				w.viol("C06", "block-lost", class, "%s: block %d is not readable unchanged after recovery", when, h)
			}
		}
		// the node goes on: the rest of the chain, compared with the uncrashed run height by height
		okAll := true
		for h := nd.Inc.State.LastBlockHeight + 1; h <= B && okAll; h++ {
			if !w.apply(nd, h) {
				inc := nd.Inc
				w.viol("C06", "cannot-continue", class, "%s: the recovered node cannot execute block %d: %.200s", when, h, inc.PanicVal)
				okAll = false
				break
			}
			out.Evals["C06.continue"]++
			if !bytes.Equal(nd.Inc.State.AppHash, w.refApp[h-1]) {
				w.viol("C06", "apphash-after-recovery", class, "%s: after block %d the recovered node has application hash %X, the uncrashed run %X", when, h, fp(nd.Inc.State.AppHash), fp(w.refApp[h-1]))
				okAll = false
			} else if !bytes.Equal(nd.Inc.State.ReceiptsHash, w.refRcpt[h-1]) {
				w.viol("C06", "receiptshash-after-recovery", class, "%s: after block %d the recovered node has receipts hash %X, the uncrashed run %X", when, h, fp(nd.Inc.State.ReceiptsHash), fp(w.refRcpt[h-1]))
				okAll = false
			}
		}
		if okAll {
			out.Evals["C06.exactly-once"]++
			if f := w.fingerprint(nd.Inc); f != refFinger {
				w.viol("C06", "not-applied-exactly-once", class, "%s: nonces, receipts, key values or key-update histories of the recovered node differ from the uncrashed run although all hashes agree", when)
			}
			// the block store of the recovered node holds the whole chain, block by block and commit by commit
			out.Evals["C06.store-complete"]++
			func() {
				defer func() {
					if r := recover(); r != nil {
						w.viol("C06", "block-store-incomplete", class, "%s: reading the block store of the recovered node back panics: %.200v", when, r)
					}
				}()
				for h := int64(1); h <= nd.Inc.Store.Height() && h <= B; h++ {
					blk := nd.Inc.Store.LoadBlock(h)
					if blk == nil || !bytes.Equal(blk.Hash(), w.chain[h-1].Hash()) {
						w.viol("C06", "block-store-incomplete", class, "%s: block %d of the recovered node's store is missing or differs", when, h)
						return
					}
					if nd.Inc.Store.LoadSeenCommit(h) == nil || (h > 1 && nd.Inc.Store.LoadBlockCommit(h-1) == nil) {
						w.viol("C06", "block-store-incomplete", class, "%s: a commit of block %d is missing in the recovered node's store", when, h)
						return
					}
				}
			}()
			// and it starts once more from what it has on disk
			if len(out.Violations) == 0 {
				out.Evals["C06.restart-again"]++
				nd.Inc.Life.Kill("clean restart after recovery")
				nd.Inc.Quiesce()
				w.quietStart = true
				up := w.startReplica(nd)
				w.quietStart = false
				if !up {
					w.viol("C06", "second-start-failed", class, "%s: the recovered node, stopped cleanly after finishing the chain, does not start again: %.200s %s", when, nd.Inc.PanicVal, nd.Inc.Exited)
				} else if nd.Inc.State.LastBlockHeight != B || !bytes.Equal(nd.Inc.State.AppHash, w.refApp[B-1]) {
					w.viol("C06", "second-start-failed", class, "%s: after one more clean restart the node is at height %d (chain has %d) or has another application hash", when, nd.Inc.State.LastBlockHeight, B)
				}
			}
		}
		w.retire(nd)
	}
}

func baseKind(k string) string {
	for strings.HasPrefix(k, "replay:") {
		k = k[7:]
	}
	return k
}

package execsim

// Property C19: the transaction pool of the EVM application (chain/app/evm/tx_pool.go), driven on a
// real full node: submissions (next nonce, gaps, stale values, same-nonce competitors, exact
// duplicates, admin-tagged transactions, garbage), reaps with any limit, blocks built from what
// the pool offers (any per-account prefix), blocks of another proposer that overtake the pool's
// content, idle time long enough for the eviction loop, flushes and restarts. A reference model
// keeps, per account, the chain nonce and the accepted submissions; every list the pool offers is
// checked against it, and at the end the pool is drained through blocks: nothing that was accepted,
// executable and never legitimately droppable may be missing from the chain.

import (
	"bytes"
	"encoding/json"
	"fmt"
	"math/big"
	"os"
	"sort"
	"strings"
	"time"

	"github.com/dappledger/AnnChain/chain/app/evm"
	"github.com/dappledger/AnnChain/eth/common"
	etypes "github.com/dappledger/AnnChain/eth/core/types"
	"github.com/dappledger/AnnChain/eth/rlp"
	"github.com/dappledger/AnnChain/gemmill/types"

	"verif/simrt"
)

// reapAll: a limit above anything the pool can hold. Reap(-1) cuts the list at the pending bound, and
// which accounts fall behind the cut depends on Go's map iteration order; lists that drive the
// run (block building, drain) must not depend on it. Cut lists are still requested as probes.
const reapAll = 4096

type poolTx struct {
	ti        *txInfo
	acct      int
	nonce     uint64
	ext       bool // admin-tagged, kept in the pool's extra list
	committed bool
	evictable bool // was non-executable while its account had been idle longer than the waiting lifetime
}

type poolModel struct {
	byRaw       map[string]*poolTx
	live        map[int]map[uint64][]*poolTx // account -> nonce -> accepted, not yet committed or superseded
	ext         []*poolTx
	lastBeat    map[int]time.Time
	lastAccept  *poolTx // for the exact-duplicate check: accepted by the previous action
	refused     [][]byte // well-formed submissions the pool refused (bounds, competing nonce)
	overCap     bool    // the pool was at capacity at some point: the no-loss check is off for this run
	waitLimit   int
	pendLimit   int
	submissions int
}

func (w *world) poolInit() {
	w.pm = &poolModel{byRaw: map[string]*poolTx{}, live: map[int]map[uint64][]*poolTx{}, lastBeat: map[int]time.Time{}}
	w.pm.waitLimit, w.pm.pendLimit = w.reps[0].Inc.App.VerifPoolLimits()
	evm.VerifAccountOrder = func(sorted []common.Address) []common.Address {
		// a seeded rotation: any order is legal
		if len(sorted) < 2 {
			return sorted
		}
		k := int(w.cfg.Seed % uint64(len(sorted)))
		return append(append([]common.Address{}, sorted[k:]...), sorted[:k]...)
	}
}

func (w *world) poolReset(why string) {
	pm := w.pm
	pm.live = map[int]map[uint64][]*poolTx{}
	pm.ext = nil
	pm.lastAccept = nil
	w.lg.Add("pool model reset: %s", why)
}

func (pm *poolModel) liveCount() int {
	n := len(pm.ext)
	for _, m := range pm.live {
		for _, l := range m {
			n += len(l)
		}
	}
	return n
}

// chainLen: how many consecutive nonces starting at c the account has accepted transactions for.
func (pm *poolModel) chainLen(acct int, c uint64) int {
	n := 0
	for len(pm.live[acct][c+uint64(n)]) > 0 {
		n++
	}
	return n
}

func (w *world) poolSubmit(a simrt.Action) {
	pm := w.pm
	inc := w.reps[0].Inc
	if !inc.Alive() {
		return
	}
	ai := a.N % len(w.accts)
	acct := w.accts[ai]
	c := w.nonces[acct.addr]
	chain := pm.chainLen(ai, c)
	variant := a.S
	var raw []byte
	ptx := &poolTx{acct: ai}
	mk := func(nonce uint64, salt int64) []byte {
		tx := etypes.NewTransaction(nonce, w.accts[(ai+1)%len(w.accts)].addr, big.NewInt(0), 5000000, big.NewInt(0), []byte(fmt.Sprintf("p%d", salt)))
		stx, err := etypes.SignTx(tx, etypes.HomesteadSigner{}, acct.key)
		if err != nil {
			panic(err)
		}
		bz, _ := rlp.EncodeToBytes(stx)
		return bz
	}
	switch variant {
	case "next":
		ptx.nonce = c + uint64(chain)
		raw = mk(ptx.nonce, a.C)
	case "gap":
		ptx.nonce = c + uint64(chain) + 1 + uint64(a.A%3)
		raw = mk(ptx.nonce, a.C)
	case "stale":
		if c == 0 {
			return
		}
		ptx.nonce = c - 1 - uint64(a.A)%c
		raw = mk(ptx.nonce, a.C)
	case "compete":
		// another transaction at a nonce the pool already has one for
		if chain == 0 {
			return
		}
		ptx.nonce = c + uint64(a.A)%uint64(chain)
		raw = mk(ptx.nonce, a.C+1000000)
	case "resubmit":
		// a transaction the pool refused earlier comes back: whatever the answer, not "I already have it"
		if len(pm.refused) == 0 {
			return
		}
		raw = pm.refused[int(a.A)%len(pm.refused)]
		if p := pm.byRaw[string(raw)]; p != nil {
			return // has been accepted in the meantime
		}
		var err error
		if !w.call(inc, "pool-submit", func() { err = inc.Pool.ReceiveTx(types.Tx(raw)) }) {
			return
		}
		w.out.Evals["C19.resubmission"]++
		// ("tx already exist in cache" is the pool's answer to exact duplicates; a refusal because another
		// transaction holds that nonce reads "tx nonce already exist in cache" and is legitimate)
		if err != nil && strings.HasPrefix(err.Error(), "tx already exist") {
			w.viol("C19", "refused-transaction-remembered", "resubmit", "a transaction the pool had refused (and does not offer) is refused again as a duplicate: %v", err)
		}
		if err == nil {
			// accepted now: register it like any accepted submission (its nonce is in the bytes)
			var tx etypes.Transaction
			if rlp.DecodeBytes(raw, &tx) == nil {
				if from, e2 := etypes.Sender(etypes.HomesteadSigner{}, &tx); e2 == nil {
					for i, ac := range w.accts {
						if ac.addr == from {
							np := &poolTx{acct: i, nonce: tx.Nonce(), ti: &txInfo{raw: raw, sender: i, nonce: tx.Nonce(), kind: "pool-resubmit", wellFormed: true}}
							if pm.live[i] == nil {
								pm.live[i] = map[uint64][]*poolTx{}
							}
							pm.live[i][np.nonce] = append(pm.live[i][np.nonce], np)
							pm.byRaw[string(raw)] = np
							pm.lastBeat[i] = time.Now()
						}
					}
				}
			}
		}
		return
	case "dup":
		if pm.lastAccept == nil {
			return
		}
		raw = pm.lastAccept.ti.raw
	case "ext":
		raw = types.TagAdminOPTx([]byte(fmt.Sprintf("{\"not\":\"a request %d\"}", a.C)))
		ptx.ext = true
	case "garbage":
		raw = simrt.NewRand(uint64(a.A)*77 + uint64(a.C)).Bytes(1 + int(a.B))
	default:
		return
	}
	var err error
	ok := w.call(inc, "pool-submit", func() { err = inc.Pool.ReceiveTx(types.Tx(raw)) })
	if !ok {
		if inc.PanicSite != "" {
			w.viol("C19", "pool-panic", "submit-"+variant, "the pool panicked on a submission (%s): %.200s", variant, inc.PanicVal)
		}
		return
	}
	pm.submissions++
	w.out.Probes["pool-submit:"+variant]++
	w.lg.Add("submit %s acct %d nonce %d -> %v", variant, ai, ptx.nonce, err == nil)
	if os.Getenv("VERIF_DEBUG_SEED") != "" {
		fmt.Printf("  submit %s acct %d nonce %d (chain nonce %d, chain %d) -> %v\n", variant, ai, ptx.nonce, c, chain, err)
	}
	switch variant {
	case "dup":
		w.out.Evals["C19.duplicate-rejected"]++
		if err == nil {
			w.viol("C19", "exact-duplicate-accepted", "dup", "the exact bytes of a transaction the pool had just accepted (account %d nonce %d) were accepted again", pm.lastAccept.acct, pm.lastAccept.nonce)
		}
		return
	case "garbage":
		if err == nil {
			w.viol("C19", "garbage-accepted", "garbage", "a byte string that is not a transaction was accepted by the pool")
		}
		return
	case "stale":
		if err == nil {
			w.viol("C19", "stale-accepted", "stale", "a transaction with nonce %d below the account's nonce %d was accepted", ptx.nonce, c)
		}
		return
	}
	pm.lastAccept = nil
	if err != nil {
		w.out.Probes["pool-submit-refused:"+variant]++
		if !ptx.ext && (variant == "next" || variant == "gap" || variant == "compete") {
			pm.refused = append(pm.refused, raw)
		}
		return
	}
	ptx.ti = &txInfo{raw: raw, sender: ai, nonce: ptx.nonce, kind: "pool-" + variant, wellFormed: !ptx.ext}
	if ptx.ext {
		ptx.ti.sender, ptx.ti.wellFormed = -1, false
		pm.ext = append(pm.ext, ptx)
	} else {
		if pm.live[ai] == nil {
			pm.live[ai] = map[uint64][]*poolTx{}
		}
		pm.live[ai][ptx.nonce] = append(pm.live[ai][ptx.nonce], ptx)
		pm.lastBeat[ai] = time.Now()
	}
	pm.byRaw[string(raw)] = ptx
	pm.lastAccept = ptx
	if pm.liveCount() >= min(pm.waitLimit, pm.pendLimit) {
		pm.overCap = true
		w.out.Probes["pool-at-capacity"]++
	}
}

// poolReap calls Reap and checks the offered list; it returns the list in a canonical order
// (extra transactions first, then by account and nonce) so that nothing downstream depends on
// the pool's map iteration order.
func (w *world) poolReap(limit int, what string) []*poolTx {
	pm := w.pm
	inc := w.reps[0].Inc
	if !inc.Alive() {
		return nil
	}
	var got []types.Tx
	if !w.call(inc, "pool-reap", func() { got = inc.Pool.Reap(limit) }) {
		if inc.PanicSite != "" {
			w.viol("C19", "pool-panic", "reap", "the pool panicked in Reap(%d): %.200s", limit, inc.PanicVal)
		}
		return nil
	}
	w.out.Evals["C19.offer"]++
	bound := limit
	if limit < 0 {
		bound = pm.pendLimit
	}
	if len(got) > bound {
		w.viol("C19", "offer-exceeds-bound", what, "Reap(%d) returned %d transactions, the bound is %d", limit, len(got), bound)
	}
	seenRaw := map[string]bool{}
	seenSlot := map[string]bool{}
	lastNonce := map[int]uint64{}
	started := map[int]bool{}
	var out []*poolTx
	for i, raw := range got {
		ptx := pm.byRaw[string(raw)]
		if ptx == nil {
			w.viol("C19", "offer-not-submitted", what, "entry %d of Reap(%d) is not a transaction that was accepted by this pool", i, limit)
			continue
		}
		if seenRaw[string(raw)] {
			w.viol("C19", "offer-duplicate", what, "Reap(%d) offers the same transaction twice (account %d nonce %d)", limit, ptx.acct, ptx.nonce)
			continue
		}
		seenRaw[string(raw)] = true
		if ptx.committed {
			w.viol("C19", "offer-already-committed", what, "Reap(%d) offers a transaction (account %d nonce %d, ext=%v) that a committed block already contained", limit, ptx.acct, ptx.nonce, ptx.ext)
		}
		out = append(out, ptx)
		if ptx.ext {
			continue
		}
		slot := fmt.Sprintf("%d/%d", ptx.acct, ptx.nonce)
		if seenSlot[slot] {
			w.viol("C19", "offer-two-for-one-nonce", what, "Reap(%d) offers two transactions of account %d with nonce %d", limit, ptx.acct, ptx.nonce)
		}
		seenSlot[slot] = true
		c := w.nonces[w.accts[ptx.acct].addr]
		if !started[ptx.acct] {
			started[ptx.acct] = true
			if ptx.nonce != c {
				w.viol("C19", "offer-not-from-current-nonce", what, "Reap(%d): the first transaction offered for account %d has nonce %d, the account's nonce is %d", limit, ptx.acct, ptx.nonce, c)
			}
		} else if ptx.nonce != lastNonce[ptx.acct]+1 {
			w.viol("C19", "offer-not-consecutive", what, "Reap(%d): account %d is offered nonce %d after nonce %d", limit, ptx.acct, ptx.nonce, lastNonce[ptx.acct])
		}
		lastNonce[ptx.acct] = ptx.nonce
	}
	if limit == reapAll {
		// everything the pool holds on to stays within the sum of its bounds (waiting + pending + extra list)
		var size int
		if w.call(inc, "pool-size", func() { size = inc.Pool.Size() }) {
			w.out.Evals["C19.size-bound"]++
			if size > pm.waitLimit+2*pm.pendLimit {
				w.viol("C19", "pool-size-exceeds-bounds", what, "the pool reports %d transactions; its waiting, pending and extra bounds add up to %d", size, pm.waitLimit+2*pm.pendLimit)
			}
		}
		// an uncut list shows everything the pending queue holds: the queue has a configured bound
		n := 0
		for _, p := range out {
			if !p.ext {
				n++
			}
		}
		w.out.Evals["C19.pending-bound"]++
		if n > pm.pendLimit {
			w.viol("C19", "pending-exceeds-bound", what, "the pending queue offers %d transactions, its configured bound is %d", n, pm.pendLimit)
		}
	}
	sort.SliceStable(out, func(i, j int) bool {
		a, b := out[i], out[j]
		if a.ext != b.ext {
			return a.ext
		}
		if a.ext {
			return bytes.Compare(a.ti.raw, b.ti.raw) < 0
		}
		if a.acct != b.acct {
			return a.acct < b.acct
		}
		return a.nonce < b.nonce
	})
	return out
}

// poolSelect: the block a proposer builds from the pool: all extra transactions offered and a
// per-account prefix of what is offered, bounded by a seeded limit.
func (w *world) poolSelect(a simrt.Action) []*txInfo {
	offered := w.poolReap(reapAll, "block")
	rr := simrt.NewRand(uint64(a.A)*911 + uint64(a.B))
	limit := len(offered)
	if a.A%3 != 0 && limit > 0 {
		limit = 1 + rr.Intn(limit)
	}
	keep := map[int]int{}
	for _, p := range offered {
		if !p.ext {
			keep[p.acct]++
		}
	}
	for acct := range w.accts { // in account order: the draws must not depend on map iteration
		if n := keep[acct]; n > 0 && rr.Chance(1, 3) {
			keep[acct] = rr.Intn(n + 1)
		}
	}
	var txs []*txInfo
	taken := map[int]int{}
	for _, p := range offered {
		if len(txs) >= limit {
			break
		}
		if !p.ext {
			if taken[p.acct] >= keep[p.acct] {
				continue
			}
			taken[p.acct]++
		}
		txs = append(txs, p.ti)
	}
	return txs
}

// poolAfterBlock: the chain advanced; what the model knows about the pool's content changes with it.
func (w *world) poolAfterBlock(txs []*txInfo) {
	pm := w.pm
	for _, ti := range txs {
		if p := pm.byRaw[string(ti.raw)]; p != nil {
			p.committed = true
		}
	}
	var ext []*poolTx
	for _, p := range pm.ext {
		if !p.committed {
			ext = append(ext, p)
		}
	}
	pm.ext = ext
	for ai, m := range pm.live {
		c := w.nonces[w.accts[ai].addr]
		for n := range m {
			if n < c {
				delete(m, n)
			}
		}
	}
	pm.lastAccept = nil
}

// poolAdvance lets simulated time pass (the eviction loop ticks every minute; transactions that
// cannot execute may be dropped once their account has been quiet for the waiting lifetime).
func (w *world) poolAdvance(minutes int64) {
	pm := w.pm
	time.Sleep(time.Duration(minutes) * time.Minute)
	w.sync()
	w.out.Faults["pool_idle_minutes"] += int(minutes)
	for ai, m := range pm.live {
		if time.Since(pm.lastBeat[ai]) <= 10*time.Minute {
			continue
		}
		c := w.nonces[w.accts[ai].addr]
		chain := pm.chainLen(ai, c)
		for n, l := range m {
			if n >= c+uint64(chain) { // behind a gap: not executable, may be dropped
				for _, p := range l {
					p.evictable = true
				}
				delete(m, n)
				w.out.Probes["pool-evictable-after-idle"]++
			}
		}
	}
	pm.lastAccept = nil
}

// poolDrain: blocks are built from everything the pool offers until it offers nothing; then no
// accepted executable transaction may be left behind.
func (w *world) poolDrain(applyBlock func(txs []*txInfo) bool) {
	pm := w.pm
	for i := 0; i < 40; i++ {
		offered := w.poolReap(reapAll, "drain")
		if len(offered) == 0 || len(w.out.Violations) > 0 {
			break
		}
		var txs []*txInfo
		for _, p := range offered {
			txs = append(txs, p.ti)
		}
		if !applyBlock(txs) {
			return
		}
	}
	if len(w.out.Violations) > 0 {
		return
	}
	w.out.Evals["C19.no-loss"]++
	if pm.overCap {
		w.out.Probes["pool-no-loss-skipped-at-capacity"]++
		return
	}
	for ai := range w.accts {
		m := pm.live[ai]
		c := w.nonces[w.accts[ai].addr]
		if l := m[c]; len(l) > 0 {
			w.viol("C19", "executable-transaction-lost", fmt.Sprintf("%s", l[0].ti.kind), "account %d: a transaction with the account's current nonce %d was accepted by the pool (%s), never committed, never droppable, and the pool no longer offers it (pool below capacity: at most %d live of %d)", ai, c, l[0].ti.kind, pm.liveCount(), min(pm.waitLimit, pm.pendLimit))
			return
		}
	}
	for _, p := range pm.ext {
		if !p.committed {
			w.viol("C19", "executable-transaction-lost", "ext", "an accepted admin-tagged transaction was never offered until the pool ran dry")
			return
		}
	}
}

func (w *world) sync() {
	// quiescence after a clock advance
	w.call(w.reps[0].Inc, "sync", func() {})
}

// generatePool: the action list of a C19 run.
func generatePool(r *simrt.Rand, cfg config) simrt.Case {
	cfg.Replicas = 1 + r.Intn(2)
	cfg.Accounts = 2 + r.Intn(3)
	cfg.BlockSize = 1 + r.Intn(3)
	var acts []simrt.Action
	n := 0
	steps := 20 + r.Intn(60)
	heavy := r.Chance(1, 3) // a few accounts flood the pool up to its bounds
	if heavy {
		steps += 40
	}
	for i := 0; i < steps; i++ {
		switch r.Pick([]int{60, 8, 10, 6, 5, 2, 2}) {
		case 0:
			kinds := []string{"next", "next", "next", "gap", "stale", "compete", "dup", "ext", "garbage", "resubmit"}
			k := kinds[r.Intn(len(kinds))]
			acct := r.Intn(cfg.Accounts)
			if heavy && r.Chance(3, 4) {
				// two or three accounts flood the pool: runs of consecutive nonces, some of them behind a gap that is filled later
				acct, k = r.Intn(min(3, cfg.Accounts)), []string{"next", "next", "next", "gap"}[r.Intn(4)]
			}
			acts = append(acts, simrt.Action{K: "submit", S: k, N: acct, A: int64(r.Intn(1 << 16)), B: int64(r.Intn(200)), C: int64(n)})
			n++
		case 1:
			acts = append(acts, simrt.Action{K: "reap", A: int64(r.Intn(8)) - 1})
		case 2:
			acts = append(acts, simrt.Action{K: "block", S: "pool", A: int64(r.Intn(1 << 16)), B: int64(r.Intn(1 << 16))})
		case 3:
			// a block of another proposer: transactions this pool has never seen, at the accounts' current nonces
			k := 1 + r.Intn(3)
			for j := 0; j < k; j++ {
				acts = append(acts, simrt.Action{K: "tx", S: []string{"transfer", "kv", "create"}[r.Intn(3)], N: r.Intn(cfg.Accounts), A: int64(r.Intn(1 << 16)), B: int64(r.Intn(220)), C: int64(1000000 + n)})
				n++
			}
			acts = append(acts, simrt.Action{K: "block", S: "foreign"})
		case 4:
			acts = append(acts, simrt.Action{K: "idle", A: int64([]int{1, 3, 9, 11, 15, 25}[r.Intn(6)])})
		case 5:
			acts = append(acts, simrt.Action{K: "flush"})
		case 6:
			acts = append(acts, simrt.Action{K: "restart", N: 0})
		}
	}
	acts = append(acts, simrt.Action{K: "drain"})
	bz, _ := json.Marshal(cfg)
	return simrt.Case{Config: bz, Actions: acts}
}

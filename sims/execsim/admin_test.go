package execsim

// Property C14: the validator set changes only through an administrative request signed, over that
// exact request, by distinct current validators with more than 2/3 of the voting power, submitted with
// the submitting account's correct nonce. The harness holds every validator key, so it can produce
// any signature list; an independent reference predicate (refAuthorised, written against the property
// text, using crypto/ed25519 directly) decides each request from its content, and a reference
// validator map is advanced only by authorised requests. After every block the validator set of every
// replica must equal the reference map.

import (
	"bytes"
	"crypto/ed25519"
	"encoding/json"
	"fmt"
	"math/big"
	"os"
	"sort"
	"strings"
	"time"

	"github.com/dappledger/AnnChain/eth/accounts/abi"
	"github.com/dappledger/AnnChain/eth/common"
	"github.com/dappledger/AnnChain/eth/core"
	etypes "github.com/dappledger/AnnChain/eth/core/types"
	"github.com/dappledger/AnnChain/eth/rlp"
	rtypes "github.com/dappledger/AnnChain/chain/types"
	crypto "github.com/dappledger/AnnChain/gemmill/go-crypto"
	"github.com/dappledger/AnnChain/gemmill/types"

	"verif/simrt"
	"verif/sims/fullnode"
)

var adminVariants = []string{
	"ok-add", "ok-update", "ok-update", "ok-remove", "minimal", "under", "dup", "dup", "foreign", "zeropower",
	"wrongmsg", "trunc-sig", "short-pubkey", "nonce-stale", "nonce-future", "replay", "replay-direct",
	"othersender", "direct-ok", "direct-spoof", "unknown-cmdtype", "unknown-cmd", "update-absent",
	"add-existing", "bad-selfsign", "no-sigs", "dup-padded", "padded-keys", "replay-contract", "replay-contract",
}

const keyPool = 8

type adminRec struct {
	cmd      []byte // the JSON of the request as submitted
	sender   common.Address
	accepted bool
}

type adminReq struct {
	variant string
	cmd     []byte         // JSON of AdminOPCmd
	from    common.Address // the 20 bytes the precompile will see as "from"
	direct  bool
	via     *common.Address // direct-format input sent to this contract instead of the precompile
}

func (w *world) initValidators() {
	for i := 0; i < keyPool; i++ {
		w.vkeys = append(w.vkeys, crypto.GenPrivKeyEd25519FromSecret([]byte(fmt.Sprintf("execsim-val-%d-%d", w.cfg.Seed, i))))
	}
	w.vkey = w.vkeys[0]
	w.vaddr = w.vkey.PubKey().Address()
	w.valRef = map[string]int64{}
	w.caRef, w.refuseRef = map[string]bool{}, map[string]bool{}
	if len(w.cfg.Powers) == 0 {
		w.valRef[string(w.vaddr)] = 10
		w.caRef[string(w.vaddr)] = true
		return
	}
	for i, p := range w.cfg.Powers {
		w.valRef[string(w.vkeys[i].PubKey().Address())] = p
		w.caRef[string(w.vkeys[i].PubKey().Address())] = i%2 == 0
	}
}

func (w *world) genesisValidators() []types.GenesisValidator {
	var gv []types.GenesisValidator
	for i, k := range w.vkeys {
		if p, ok := w.valRef[string(k.PubKey().Address())]; ok {
			gv = append(gv, types.GenesisValidator{PubKey: k.PubKey(), Amount: p, Name: fmt.Sprintf("v%d", i), IsCA: w.caRef[string(k.PubKey().Address())]})
		}
	}
	return gv
}

func (w *world) keyOf(addr []byte) *crypto.PrivKeyEd25519 {
	for i := range w.vkeys {
		if bytes.Equal(w.vkeys[i].PubKey().Address(), addr) {
			return &w.vkeys[i]
		}
	}
	return nil
}

// signCommit: precommits of every validator in force at this height (the harness holds all keys).
func (w *world) signCommit(vals *types.ValidatorSet, h int64, id types.BlockID) *types.Commit {
	c := &types.Commit{BlockID: id}
	for i, v := range vals.Validators {
		k := w.keyOf(v.Address)
		if k == nil {
			c.Precommits = append(c.Precommits, nil)
			continue
		}
		vote := &types.Vote{ValidatorAddress: v.Address, ValidatorIndex: i, Height: h, Round: 0, Type: types.VoteTypePrecommit, BlockID: id}
		vote.Signature = k.Sign(types.SignBytes(fullnode.ChainID, vote))
		c.Precommits = append(c.Precommits, vote)
	}
	return c
}

func pub32(k crypto.PrivKeyEd25519) []byte {
	p := k.PubKey().(crypto.PubKeyEd25519)
	return append([]byte{}, p[:]...)
}

func sig64(k crypto.PrivKeyEd25519, msg []byte) []byte {
	s := k.Sign(msg).(crypto.SignatureEd25519)
	return append([]byte{}, s[:]...)
}

// members of the reference set, sorted by power descending then address (deterministic)
func (w *world) refMembers() (keys []crypto.PrivKeyEd25519, powers []int64, total int64) {
	type m struct {
		k crypto.PrivKeyEd25519
		p int64
	}
	var ms []m
	for _, k := range w.vkeys {
		if p, ok := w.valRef[string(k.PubKey().Address())]; ok {
			ms = append(ms, m{k, p})
			total += p
		}
	}
	sort.SliceStable(ms, func(i, j int) bool { return ms[i].p > ms[j].p })
	for _, x := range ms {
		keys = append(keys, x.k)
		powers = append(powers, x.p)
	}
	return
}

func (w *world) nonMembers() []crypto.PrivKeyEd25519 {
	var r []crypto.PrivKeyEd25519
	for _, k := range w.vkeys {
		if _, ok := w.valRef[string(k.PubKey().Address())]; !ok {
			r = append(r, k)
		}
	}
	return r
}

// mkAdmin builds the request of one variant. a.A, a.B are the generator's free numbers.
func (w *world) mkAdmin(variant string, a simrt.Action, acct *account, nonce uint64) *adminReq {
	rr := simrt.NewRand(uint64(a.A)*131 + uint64(a.B)*7 + uint64(a.C))
	members, powers, total := w.refMembers()
	outsiders := w.nonMembers()
	req := &adminReq{variant: variant, from: acct.addr}
	attr := types.ValidatorAttr{Addr: acct.addr.Bytes(), Nonce: nonce}
	// target and command
	pickMember := func(avoidLastPositive bool) *crypto.PrivKeyEd25519 {
		var c []int
		for i := range members {
			if avoidLastPositive && powers[i] > 0 && total-w.pendingRemoved-powers[i] <= 0 {
				continue
			}
			if w.pendingTargets[string(members[i].PubKey().Address())] {
				continue
			}
			c = append(c, i)
		}
		if len(c) == 0 {
			return nil
		}
		return &members[c[rr.Intn(len(c))]]
	}
	pickOutsider := func() *crypto.PrivKeyEd25519 {
		var c []int
		for i := range outsiders {
			if !w.pendingTargets[string(outsiders[i].PubKey().Address())] {
				c = append(c, i)
			}
		}
		if len(c) == 0 {
			return nil
		}
		return &outsiders[c[rr.Intn(len(c))]]
	}
	var target *crypto.PrivKeyEd25519
	switch variant {
	case "ok-add", "bad-selfsign":
		target = pickOutsider()
		attr.Cmd, attr.Power = types.ValidatorCmdAddPeer, 0
		if rr.Chance(1, 3) {
			attr.Power = int64(1 + rr.Intn(3))
		}
	case "ok-remove":
		target = pickMember(true)
		attr.Cmd = types.ValidatorCmdRemoveNode
	case "update-absent":
		target = pickOutsider()
		attr.Cmd, attr.Power = types.ValidatorCmdUpdateNode, int64(1+rr.Intn(9))
	case "add-existing":
		target = pickMember(false)
		attr.Cmd, attr.Power = types.ValidatorCmdAddPeer, int64(rr.Intn(9))
	default:
		// every other variant asks for a power change that would be visible if applied
		target = pickMember(false)
		attr.Cmd = types.ValidatorCmdUpdateNode
		if target != nil {
			cur := w.valRef[string(target.PubKey().Address())]
			attr.Power = cur + int64(1+rr.Intn(9))
			if rr.Chance(1, 4) && cur > 1 && total-cur > 0 {
				attr.Power = cur - 1
			}
		}
	}
	if target == nil {
		return nil
	}
	attr.PubKey = pub32(*target)
	switch variant {
	case "nonce-stale":
		if nonce > 0 {
			attr.Nonce = nonce - 1
		} else {
			attr.Nonce = nonce + 2
		}
	case "nonce-future":
		attr.Nonce = nonce + 1 + uint64(rr.Intn(3))
	case "othersender":
		other := w.accts[(indexOf(w.accts, acct)+1)%len(w.accts)]
		if other == acct {
			return nil
		}
		attr.Addr = other.addr.Bytes()
		attr.Nonce = w.nonces[other.addr]
	case "unknown-cmd":
		attr.Cmd = types.ValidatorCmd("promote_node")
	}
	cmd := types.AdminOPCmd{CmdType: types.AdminOpChangeValidator, Time: w.start, Nonce: attr.Nonce}
	cmd.Msg, _ = json.Marshal(&attr)
	if variant == "unknown-cmdtype" {
		cmd.CmdType = "changeEverything"
	}
	if attr.Cmd == types.ValidatorCmdAddPeer {
		cmd.SelfSign = sig64(*target, cmd.Msg)
		if variant == "bad-selfsign" {
			cmd.SelfSign = sig64(members[0], cmd.Msg)
		}
	}
	// signer lists
	add := func(k crypto.PrivKeyEd25519, msg []byte) {
		cmd.SInfos = append(cmd.SInfos, types.SigInfo{PubKey: pub32(k), Signature: sig64(k, msg)})
	}
	all := func(msg []byte) {
		for _, k := range members {
			add(k, msg)
		}
	}
	// the largest prefix (by descending power) that stays at or below 2/3, and the index that crosses it
	under := func() int {
		var sum int64
		for i, p := range powers {
			if 3*(sum+p) > 2*total {
				return i
			}
			sum += p
		}
		return len(powers)
	}
	switch variant {
	case "minimal":
		n := under()
		for i := 0; i <= n && i < len(members); i++ {
			add(members[i], cmd.Msg)
		}
	case "under":
		for i := 0; i < under(); i++ {
			add(members[i], cmd.Msg)
		}
	case "dup":
		// one validator's (valid) signature repeated: the light ones first, then the heaviest
		k := members[len(members)-1]
		if rr.Chance(1, 2) {
			k = members[0]
		}
		for i := 0; i < 1+rr.Intn(12); i++ {
			add(k, cmd.Msg)
		}
		for i := 0; i < under() && rr.Chance(1, 2); i++ {
			add(members[i], cmd.Msg)
		}
	case "dup-padded":
		// one validator listed several times under keys that differ only behind the 32nd byte
		k := members[len(members)-1]
		if rr.Chance(1, 2) {
			k = members[0]
		}
		for i := 0; i < 2+rr.Intn(10); i++ {
			cmd.SInfos = append(cmd.SInfos, types.SigInfo{PubKey: append(pub32(k), byte(i)), Signature: sig64(k, cmd.Msg)})
		}
		for i := 0; i < under() && rr.Chance(1, 2); i++ {
			add(members[i], cmd.Msg)
		}
	case "padded-keys":
		all(cmd.Msg)
		for i := range cmd.SInfos {
			cmd.SInfos[i].PubKey = append(cmd.SInfos[i].PubKey, byte(i), 7)
		}
	case "foreign":
		for i := 0; i < under(); i++ {
			add(members[i], cmd.Msg)
		}
		for _, k := range outsiders {
			add(k, cmd.Msg)
		}
	case "zeropower":
		for i := 0; i < under(); i++ {
			if powers[i] > 0 && rr.Chance(1, 2) {
				add(members[i], cmd.Msg)
			}
		}
		for i, k := range members {
			if powers[i] == 0 {
				add(k, cmd.Msg)
				add(k, cmd.Msg)
			}
		}
	case "wrongmsg":
		other := attr
		other.Power++
		om, _ := json.Marshal(&other)
		all(om)
	case "trunc-sig":
		all(cmd.Msg)
		for i := range cmd.SInfos {
			cmd.SInfos[i].Signature = cmd.SInfos[i].Signature[:rr.Intn(64)]
		}
	case "short-pubkey":
		all(cmd.Msg)
		for i := range cmd.SInfos {
			cmd.SInfos[i].PubKey = cmd.SInfos[i].PubKey[:rr.Intn(32)]
		}
	case "no-sigs":
	default:
		all(cmd.Msg)
	}
	req.cmd, _ = json.Marshal(&cmd)
	switch variant {
	case "replay-contract":
		// an accepted request sent again through whatever contract is deployed (two of the deployable contracts
		// forward their call data to the precompile, by CALL and by STATICCALL), in its original sender's name
		var acc []adminRec
		for _, r := range w.adminLog {
			if r.accepted {
				acc = append(acc, r)
			}
		}
		if len(acc) == 0 || len(w.contracts) == 0 {
			return nil
		}
		old := acc[rr.Intn(len(acc))]
		// prefer a request that would be visible if it took effect again (its sender has not transacted since, the
		// set has moved on), and a contract that forwards to the precompile
		for i := range acc {
			r := acc[(rr.Intn(len(acc))+i)%len(acc)]
			var c2 types.AdminOPCmd
			var at types.ValidatorAttr
			if json.Unmarshal(r.cmd, &c2) != nil || json.Unmarshal(c2.Msg, &at) != nil {
				continue
			}
			var pk crypto.PubKeyEd25519
			copy(pk[:], at.PubKey)
			cur, member := w.valRef[string(pk.Address())]
			differs := (at.Cmd == types.ValidatorCmdRemoveNode && member) || (at.Cmd == types.ValidatorCmdUpdateNode && member && cur != at.Power) || (at.Cmd == types.ValidatorCmdAddPeer && !member)
			if differs && w.nonces[r.sender] == at.Nonce+1 && r.sender != acct.addr {
				old = r
				break
			}
		}
		req.cmd = old.cmd
		req.direct, req.from = true, old.sender
		var fw []int
		for i, rt := range w.contractRT {
			if rt == 9 || rt == 10 {
				fw = append(fw, i)
			}
		}
		ci := rr.Intn(len(w.contracts))
		if len(fw) > 0 && rr.Chance(4, 5) {
			ci = fw[rr.Intn(len(fw))]
		}
		c := w.contracts[ci]
		req.via = &c
	case "replay", "replay-direct":
		var acc []adminRec
		for _, r := range w.adminLog {
			if r.accepted {
				acc = append(acc, r)
			}
		}
		if len(acc) == 0 {
			return nil
		}
		old := acc[rr.Intn(len(acc))]
		req.cmd = old.cmd
		if variant == "replay-direct" {
			req.direct, req.from = true, old.sender
		}
	case "direct-ok":
		req.direct = true
	case "direct-spoof":
		// a request in the name of another account, fully signed, with the nonce that account has now
		other := w.accts[(indexOf(w.accts, acct)+1)%len(w.accts)]
		if other == acct {
			return nil
		}
		attr.Addr = other.addr.Bytes()
		attr.Nonce = w.nonces[other.addr] - 1 // the precompile compares with the account's nonce + 1 ... of "from"
		cmd.SInfos = nil
		cmd.Msg, _ = json.Marshal(&attr)
		all(cmd.Msg)
		req.cmd, _ = json.Marshal(&cmd)
		req.direct, req.from = true, other.addr
	}
	return req
}

var adminABI = func() abi.ABI {
	a, err := abi.JSON(strings.NewReader(core.AdminABI))
	if err != nil {
		panic(err)
	}
	return a
}()

// adminTx wraps the request the way the command-line client does (through the genesis Admin
// contract) or as a direct call of the precompile at 0xfe with a caller-chosen "from".
func (w *world) adminTx(req *adminReq, acct *account, nonce uint64) *etypes.Transaction {
	tagged := types.TagAdminOPTx(req.cmd)
	if !req.direct {
		data, err := adminABI.Pack(core.AdminMethod, tagged)
		if err != nil {
			panic(err)
		}
		return etypes.NewTransaction(nonce, core.AdminTo, big.NewInt(0), 5000000, big.NewInt(0), data)
	}
	body := append(append([]byte{}, req.from.Bytes()...), tagged...)
	data := append(common.LeftPadBytes(big.NewInt(int64(len(body))).Bytes(), 32), body...)
	to := common.BytesToAddress([]byte{0xfe})
	if req.via != nil {
		to = *req.via
	}
	return etypes.NewTransaction(nonce, to, big.NewInt(0), 5000000, big.NewInt(0), data)
}

// refAuthorised is the reference predicate, from the property text: the request is a validator change
// with a known command, signed over exactly its message by distinct current validators (positive
// power) holding more than 2/3 of the total power, in the name of the submitting account and with
// that account's nonce (the nonce of the transaction that carries it); a node joining signs itself.
func (w *world) refAuthorised(cmdJSON []byte, claimedFrom, sender common.Address, txNonce uint64) (*types.ValidatorAttr, bool, string) {
	var cmd types.AdminOPCmd
	if err := json.Unmarshal(cmdJSON, &cmd); err != nil {
		return nil, false, "undecodable"
	}
	if cmd.CmdType != types.AdminOpChangeValidator {
		return nil, false, "unknown command type"
	}
	var attr types.ValidatorAttr
	if err := json.Unmarshal(cmd.Msg, &attr); err != nil {
		return nil, false, "undecodable message"
	}
	switch attr.Cmd {
	case types.ValidatorCmdAddPeer, types.ValidatorCmdUpdateNode, types.ValidatorCmdRemoveNode:
	default:
		return &attr, false, "unknown validator command"
	}
	if claimedFrom != sender || !bytes.Equal(attr.Addr, sender.Bytes()) {
		return &attr, false, "not in the name of the submitting account"
	}
	if attr.Nonce != txNonce {
		return &attr, false, "wrong nonce"
	}
	var total, signed int64
	for _, p := range w.valRef {
		total += p
	}
	seen := map[string]bool{}
	for _, si := range cmd.SInfos {
		// the text does not say what an over-long key or signature field means; the node reads the first 32 and
		// 64 bytes, and so does the reference (what matters is that a validator counts once however it is written)
		// (likewise a field that is too short is read as if padded with zeros: a signature whose last byte is 0 -
		// one in sixteen - survives the loss of that byte; it still is that validator's signature over the request)
		var pkb [ed25519.PublicKeySize]byte
		var sgb [ed25519.SignatureSize]byte
		copy(pkb[:], si.PubKey)
		copy(sgb[:], si.Signature)
		si.PubKey, si.Signature = pkb[:], sgb[:]
		if seen[string(si.PubKey)] {
			continue
		}
		var pk crypto.PubKeyEd25519
		copy(pk[:], si.PubKey)
		p, member := w.valRef[string(pk.Address())]
		if !member || p <= 0 {
			continue
		}
		if !ed25519.Verify(ed25519.PublicKey(si.PubKey), cmd.Msg, si.Signature) {
			continue
		}
		seen[string(si.PubKey)] = true
		signed += p
	}
	if 3*signed <= 2*total {
		return &attr, false, fmt.Sprintf("signed power %d of %d", signed, total)
	}
	if attr.Cmd == types.ValidatorCmdAddPeer {
		if len(attr.PubKey) != ed25519.PublicKeySize || len(cmd.SelfSign) != ed25519.SignatureSize || !ed25519.Verify(ed25519.PublicKey(attr.PubKey), cmd.Msg, cmd.SelfSign) {
			return &attr, false, "joining node did not sign"
		}
	}
	return &attr, true, ""
}

// refApply: the effect of the authorised requests of one block on the reference map. Membership
// conditions refer to the set in force during the block; the changes land together at its end.
func (w *world) refApply(pre map[string]int64, attrs []*types.ValidatorAttr) {
	for _, at := range attrs {
		var pk crypto.PubKeyEd25519
		copy(pk[:], at.PubKey)
		addr := string(pk.Address())
		cur, member := pre[addr]
		switch at.Cmd {
		case types.ValidatorCmdAddPeer:
			if !member {
				w.valRef[addr] = at.Power
				w.caRef[addr] = at.Power > 0
				delete(w.refuseRef, string(pk[:]))
			}
		case types.ValidatorCmdUpdateNode:
			if member && cur != at.Power {
				w.valRef[addr] = at.Power
				w.caRef[addr] = at.Power > 0
				delete(w.refuseRef, string(pk[:]))
			}
		case types.ValidatorCmdRemoveNode:
			if member {
				delete(w.valRef, addr)
				delete(w.caRef, addr)
				w.refuseRef[string(pk[:])] = true
				w.removedKeys = append(w.removedKeys, addr)
			}
		}
	}
}

func valsOf(vs *types.ValidatorSet) map[string]int64 {
	m := map[string]int64{}
	for _, v := range vs.Validators {
		m[string(v.Address)] = v.VotingPower
	}
	return m
}

func sameVals(a, b map[string]int64) bool {
	if len(a) != len(b) {
		return false
	}
	for k, v := range a {
		if w, ok := b[k]; !ok || w != v {
			return false
		}
	}
	return true
}

func (w *world) showVals(m map[string]int64) string {
	var parts []string
	for i, k := range w.vkeys {
		if p, ok := m[string(k.PubKey().Address())]; ok {
			parts = append(parts, fmt.Sprintf("v%d:%d", i, p))
		}
	}
	return "{" + strings.Join(parts, " ") + "}"
}

var _ = time.Second

// blame names the request that explains a wrong validator set: the last request of the block that
// the reference refused and that asks for exactly what the replica now has; failing that, the
// variants present in the block.
func (w *world) blame(txs []*txInfo, got map[string]int64) string {
	for i := len(txs) - 1; i >= 0; i-- {
		ti := txs[i]
		if ti.admin == nil || ti.sender < 0 {
			continue
		}
		acct := w.accts[ti.sender%len(w.accts)]
		at, ok, _ := w.refAuthorised(ti.admin.cmd, ti.admin.from, acct.addr, ti.nonce)
		if ok || at == nil {
			continue
		}
		var pk crypto.PubKeyEd25519
		copy(pk[:], at.PubKey)
		addr := string(pk.Address())
		p, member := got[addr]
		want, wmember := w.valRef[addr]
		if member == wmember && p == want {
			continue
		}
		if (at.Cmd == types.ValidatorCmdRemoveNode && !member) || (at.Cmd != types.ValidatorCmdRemoveNode && member && p == at.Power) {
			return ti.admin.variant
		}
	}
	seen := map[string]bool{}
	var vs []string
	for _, ti := range txs {
		if ti.admin != nil && !seen[ti.admin.variant] {
			seen[ti.admin.variant] = true
			vs = append(vs, ti.admin.variant)
		}
	}
	sort.Strings(vs)
	return "block-with:" + strings.Join(vs, "+")
}

// adminQuery: the sender of an accepted request submits it again, not as a transaction but as a
// read-only contract call (QueryType_Contract) at one replica. A query must not change anything.
func (w *world) adminQuery(a simrt.Action) {
	var acc []adminRec
	for _, r := range w.adminLog {
		if r.accepted {
			acc = append(acc, r)
		}
	}
	if len(acc) == 0 || a.N >= len(w.reps) || !w.reps[a.N].Inc.Alive() {
		return
	}
	old := acc[int(a.A)%len(acc)]
	// prefer a request that would be visible if it took effect again: its sender has not transacted
	// since, and the set has moved on from what it asked for
	for i := range acc {
		r := acc[(int(a.A)+i)%len(acc)]
		var cmd types.AdminOPCmd
		var at types.ValidatorAttr
		if json.Unmarshal(r.cmd, &cmd) != nil || json.Unmarshal(cmd.Msg, &at) != nil {
			continue
		}
		var pk crypto.PubKeyEd25519
		copy(pk[:], at.PubKey)
		cur, member := w.valRef[string(pk.Address())]
		differs := (at.Cmd == types.ValidatorCmdRemoveNode && member) || (at.Cmd == types.ValidatorCmdUpdateNode && member && cur != at.Power) || (at.Cmd == types.ValidatorCmdAddPeer && !member)
		if differs && w.nonces[r.sender] == at.Nonce+1 {
			old = r
			w.out.Probes["query-replay-would-be-visible"]++
			break
		}
	}
	var acct *account
	for _, c := range w.accts {
		if c.addr == old.sender {
			acct = c
		}
	}
	if acct == nil {
		return
	}
	req := &adminReq{variant: "query-replay", cmd: old.cmd, from: acct.addr, direct: a.A%2 == 1}
	tx, err := etypes.SignTx(w.adminTx(req, acct, w.nonces[acct.addr]), etypes.HomesteadSigner{}, acct.key)
	if err != nil {
		panic(err)
	}
	bz, _ := rlp.EncodeToBytes(tx)
	code, data, _ := w.query(w.reps[a.N].Inc, rtypes.QueryType_Contract, bz)
	if os.Getenv("VERIF_DEBUG_SEED") != "" {
		fmt.Printf("  adminquery replica %d direct=%v -> code %d %q\n", a.N, req.direct, code, data)
	}
	w.out.Faults["admin_request_replayed_as_query"]++
	w.lg.Add("adminquery replica %d code %d", a.N, code)
	if w.queried == nil {
		w.queried = map[int]bool{}
	}
	w.queried[a.N] = true
}

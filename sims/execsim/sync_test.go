package execsim

// Property C13: a node that catches up from peers. The source chain is the harness-built chain the
// replicas executed (with validator-set changes when the admin workload is on). A fresh full node
// starts in fast-sync mode with its real Switch, block-sync reactor and pool; puppet peers - real
// p2p.Switch instances with a scripted block-sync reactor - connect over simulated links, run the
// production handshake and serve blocks: genuine ones, or tampered ones according to a seeded
// script per (peer, height). Simulated time advances until the node has caught up or the budget
// is spent. Whatever the node stored must be the source chain, and its state the reference state.

import (
	"bytes"
	"fmt"
	"os"
	"sync"
	"testing/synctest"
	"time"

	"github.com/spf13/viper"

	bc "github.com/dappledger/AnnChain/gemmill/blockchain"
	crypto "github.com/dappledger/AnnChain/gemmill/go-crypto"
	"github.com/dappledger/AnnChain/gemmill/go-wire"
	"github.com/dappledger/AnnChain/gemmill/p2p"
	"github.com/dappledger/AnnChain/gemmill/types"

	"verif/simnet"
	"verif/simrt"
	"verif/sims/fullnode"
)

var syncTampers = []string{"honest", "honest", "honest", "tx", "apphash", "commit-underweight", "commit-other-block", "commit-badsig", "other-height", "silent", "forged", "nil-block", "garbage", "nil-header", "nil-data", "nil-lastcommit", "huge-height", "commit-all-missing", "commit-exact-two-thirds"}

// scriptedReactor speaks the block-sync protocol for a puppet peer.
type scriptedReactor struct {
	p2p.BaseReactor
	w      *world
	id     int
	script map[int64]string // height -> behaviour (default honest)
	claim  int64            // the height it reports
	mu     sync.Mutex
	served map[string]int
	chans  []byte
}

func (r *scriptedReactor) GetChannels() []*p2p.ChannelDescriptor {
	var ds []*p2p.ChannelDescriptor
	for _, id := range r.chans {
		ds = append(ds, &p2p.ChannelDescriptor{ID: id, Priority: 5, SendQueueCapacity: 100})
	}
	return ds
}

func (r *scriptedReactor) AddPeer(peer *p2p.Peer) {
	if len(r.chans) == 1 && r.chans[0] == bc.BlockchainChannel {
		peer.Send(bc.BlockchainChannel, bc.VerifStatusResponseMsg(r.claim))
	}
}
func (r *scriptedReactor) RemovePeer(peer *p2p.Peer, reason interface{}) {}

func (r *scriptedReactor) Receive(chID byte, src *p2p.Peer, msgBytes []byte) {
	if chID != bc.BlockchainChannel {
		return
	}
	kind, h := bc.VerifDecode(msgBytes)
	switch kind {
	case "status-request":
		src.TrySend(bc.BlockchainChannel, bc.VerifStatusResponseMsg(r.claim))
	case "block-request":
		how := r.script[h]
		if how == "" {
			how = "honest"
		}
		r.mu.Lock()
		r.served[how]++
		r.mu.Unlock()
		blk := r.w.serveBlock(h, how, r.id)
		switch how {
		case "silent":
			return
		case "garbage":
			src.TrySend(bc.BlockchainChannel, simrt.NewRand(uint64(h)*13+uint64(r.id)).Bytes(40))
			return
		case "nil-block":
			src.TrySend(bc.BlockchainChannel, bc.VerifBlockResponseMsg(nil))
			return
		}
		if blk != nil {
			src.TrySend(bc.BlockchainChannel, bc.VerifBlockResponseMsg(blk))
		}
	}
}

// copyBlock: a deep copy through the wire encoding, so that tampering never touches the source chain.
func copyBlock(b *types.Block) *types.Block {
	bz := wire.BinaryBytes(b)
	var n int
	var err error
	c := wire.ReadBinary(&types.Block{}, bytes.NewReader(bz), types.MaxBlockSize, &n, &err).(*types.Block)
	if err != nil {
		panic(err)
	}
	return c
}

// serveBlock: what a puppet answers for height h.
func (w *world) serveBlock(h int64, how string, peer int) *types.Block {
	if h < 1 || h > int64(len(w.chain)) {
		return nil
	}
	src := w.chain[h-1]
	if how == "honest" {
		return src
	}
	b := copyBlock(src)
	switch how {
	case "tx":
		if len(b.Data.Txs) == 0 {
			b.Data.Txs = append(b.Data.Txs, types.Tx("injected"))
		} else {
			t := append([]byte{}, b.Data.Txs[0]...)
			t[len(t)/2] ^= 1
			b.Data.Txs[0] = t
		}
	case "apphash":
		b.Header.AppHash = append([]byte{0x5a}, b.Header.AppHash...)
	case "commit-underweight":
		// the LastCommit (which justifies block h-1) keeps at most 2/3 of the power
		if b.LastCommit != nil {
			for i := range b.LastCommit.Precommits {
				if i > 0 || len(b.LastCommit.Precommits) == 1 {
					b.LastCommit.Precommits[i] = nil
				}
			}
		}
	case "commit-exact-two-thirds":
		// precommits worth exactly two thirds of the power in force (when some subset adds up to that), else fewer
		if b.LastCommit != nil && h >= 2 {
			vals := w.valHist[h-2]
			if h == 2 || vals == nil {
				vals = map[string]int64{}
				for _, gv := range w.env.Genesis.Validators {
					vals[string(gv.PubKey.Address())] = gv.Amount
				}
				if h > 2 && w.valHist[h-2] != nil {
					vals = w.valHist[h-2]
				}
			}
			var total, kept int64
			for _, p := range vals {
				total += p
			}
			for i, pc := range b.LastCommit.Precommits {
				if pc == nil {
					continue
				}
				p := vals[string(pc.ValidatorAddress)]
				if (kept+p)*3 <= total*2 {
					kept += p
				} else {
					b.LastCommit.Precommits[i] = nil
				}
			}
		}
	case "commit-other-block":
		if b.LastCommit != nil {
			for _, pc := range b.LastCommit.Precommits {
				if pc != nil && len(pc.BlockID.Hash) > 0 {
					pc.BlockID.Hash = append([]byte{}, pc.BlockID.Hash...)
					pc.BlockID.Hash[0] ^= 1
				}
			}
		}
	case "commit-badsig":
		if b.LastCommit != nil {
			for _, pc := range b.LastCommit.Precommits {
				if pc != nil {
					if sig, ok := pc.Signature.(crypto.SignatureEd25519); ok {
						sig[3] ^= 1
						pc.Signature = sig
					}
				}
			}
		}
	case "other-height":
		o := h + 1
		if o > int64(len(w.chain)) {
			o = h - 1
		}
		if o < 1 {
			return src
		}
		return w.chain[o-1]
	case "nil-header":
		b.Header = nil
	case "nil-data":
		b.Data = nil
	case "nil-lastcommit":
		b.LastCommit = nil
	case "huge-height":
		b.Header.Height = 1 << 60
	case "commit-all-missing":
		if b.LastCommit != nil {
			for i := range b.LastCommit.Precommits {
				b.LastCommit.Precommits[i] = nil
			}
		}
	case "forged":
		// a different block at this height, "committed" by the first validator alone in the next answer
		b.Data.Txs = []types.Tx{types.Tx(fmt.Sprintf("forged-%d-%d", h, peer))}
		b.Header.NumTxs = 1
		b.Header.DataHash = b.Data.Hash()
	}
	return b
}

type puppetOwner struct {
	mu     sync.Mutex
	panics []string
}

func (o *puppetOwner) OnPanic(site string, v interface{}, stack []byte) {
	o.mu.Lock()
	o.panics = append(o.panics, fmt.Sprintf("%s: %v", site, v))
	o.mu.Unlock()
}

// syncRun: a.A = number of peers, a.B = script salt.
func (w *world) syncRun(a simrt.Action) {
	out := w.out
	H := int64(len(w.chain))
	if H < 3 {
		return
	}
	rr := simrt.NewRand(uint64(a.B)*7919 + 11)
	key := crypto.GenPrivKeyEd25519FromSecret([]byte(fmt.Sprintf("execsim-sync-%d", w.cfg.Seed)))
	nd := fullnode.NewNode(len(w.reps)+50, key, w.base)
	nd.FastSync = true
	inc := nd.NewInc()
	ok := w.call(inc, "sync-build", func() {
		inc.Build(w.env)
		inc.StartReactors()
	})
	if !ok {
		w.viol("C13", "sync-node-start-failed", "start", "the syncing node did not start: %s %s", inc.PanicVal, inc.Exited)
		return
	}
	po := &puppetOwner{}
	npeers := 1 + int(a.A)%4
	allHonest := true
	var reactors []*scriptedReactor
	var switches []*p2p.Switch
	for p := 0; p < npeers; p++ {
		r := &scriptedReactor{w: w, id: p, script: map[int64]string{}, claim: H, served: map[string]int{}, chans: []byte{bc.BlockchainChannel}}
		r.BaseReactor = *p2p.NewBaseReactor("puppet-bc", r)
		malicious := p > 0 && rr.Chance(1, 2) || (p == 0 && rr.Chance(1, 4))
		if malicious {
			for h := int64(1); h <= H; h++ {
				if rr.Chance(1, 2) {
					r.script[h] = syncTampers[3+rr.Intn(len(syncTampers)-3)]
					allHonest = false
					out.Faults["sync_peer_"+r.script[h]]++
				}
			}
			if rr.Chance(1, 3) {
				r.claim = H + int64(1+rr.Intn(5))
				out.Faults["sync_peer_claims_more"]++
			}
		}
		reactors = append(reactors, r)
		pk := crypto.GenPrivKeyEd25519FromSecret([]byte(fmt.Sprintf("execsim-puppet-%d-%d", w.cfg.Seed, p)))
		sw := p2p.NewSwitch(viper.New())
		sw.SetNodeInfo(&p2p.NodeInfo{PubKey: pk.PubKey(), Moniker: fmt.Sprintf("puppet%d", p), ListenAddr: fmt.Sprintf("10.0.8.%d:1", p+1), Version: "0.1.0"})
		sw.SetNodePrivKey(pk)
		sw.SetExchangeData(&p2p.ExchangeData{GenesisJSON: inc.Sw.GetExchangeData().GenesisJSON})
		sw.AddReactor("BLOCKCHAIN", r)
		other := &scriptedReactor{w: w, id: p, chans: []byte{0x20, 0x21, 0x22, 0x23, 0x30}}
		other.BaseReactor = *p2p.NewBaseReactor("puppet-other", other)
		sw.AddReactor("OTHER", other)
		switches = append(switches, sw)
		w.reg.GoAs(po, "puppet-start", func() { sw.Start() })
	}
	synctest.Wait()
	for p, sw := range switches {
		sw := sw
		l := simnet.NewLink(fmt.Sprintf("10.0.7.1:%d", p+1), fmt.Sprintf("10.0.8.%d:1", p+1), func(f func()) { w.reg.GoAs(po, "relay", f) })
		w.reg.GoAs(inc, "sync-accept", func() { inc.Sw.AddPeerWithConnection(l.A, false) })
		w.reg.GoAs(po, "puppet-dial", func() { sw.AddPeerWithConnection(l.B, true) })
	}
	synctest.Wait()
	// simulated time passes until the node caught up (it can verify block H-1 at most) or the budget is spent
	target := H - 1
	budget := 240
	if !allHonest {
		budget = 600
	}
	reached := false
	for i := 0; i < budget*10; i++ {
		time.Sleep(100 * time.Millisecond)
		synctest.Wait()
		if !inc.Alive() || inc.PanicSite != "" {
			break
		}
		if inc.Store.Height() >= target {
			reached = true
			break
		}
	}
	out.Evals["C13.sync"]++
	got := inc.Store.Height()
	served := map[string]int{}
	for _, r := range reactors {
		for k, n := range r.served {
			served[k] += n
		}
	}
	if allHonest {
		w.lg.Add("sync: peers %d honest-only reached %v height %d of %d", npeers, reached, got, target)
	} else {
		// how far the node gets before the budget ends depends on which peer the pool happens to ask (map order)
		// and on the runtime's choice among ready select cases; the safety verdicts below do not
		w.lg.Add("sync: peers %d, some malicious: verdicts only", npeers)
	}
	if os.Getenv("VERIF_DEBUG_SEED") != "" {
		fmt.Printf("  sync: peers %d all honest %v reached %v height %d target %d served %v panic %q\n", npeers, allHonest, reached, got, target, served, inc.PanicVal)
	}
	if inc.PanicSite != "" {
		w.viol("C13", "sync-node-panic", fullnode.PanicKey(inc.PanicVal, inc.PanicStk), "the syncing node panicked on goroutine %s: %.300s", inc.PanicSite, inc.PanicVal)
	}
	for _, p := range po.panics {
		w.lg.Add("puppet panic %s", p)
		if os.Getenv("VERIF_DEBUG_SEED") != "" {
			fmt.Println("  puppet panic:", p)
		}
	}
	// ---- safety: whatever is stored is the source chain, state and validators are the reference's
	for h := int64(1); h <= got && h <= H; h++ {
		b := inc.Store.LoadBlock(h)
		if b == nil || !bytes.Equal(b.Hash(), w.chain[h-1].Hash()) || !bytes.Equal(wire.BinaryBytes(b), wire.BinaryBytes(w.chain[h-1])) {
			w.viol("C13", "foreign-block-stored", fmt.Sprintf("%v", w.tamperAt(reactors, h)), "the syncing node stored at height %d a block that is not the source chain's block (peers served this height as %v)", h, w.tamperAt(reactors, h))
			break
		}
	}
	// ---- and every stored block is justified: the commit the node saved with it carries valid precommits for
	// exactly that block from more than two thirds of the voting power in force at that height
	for h := int64(1); h <= got && h <= H && len(out.Violations) == 0; h++ {
		out.Evals["C13.justified"]++
		vals := w.valHist[h-1]
		if h == 1 || vals == nil {
			vals = map[string]int64{}
			for _, gv := range w.env.Genesis.Validators {
				vals[string(gv.PubKey.Address())] = gv.Amount
			}
		}
		var total, signed int64
		for _, p := range vals {
			total += p
		}
		c := inc.Store.LoadSeenCommit(h)
		meta := inc.Store.LoadBlockMeta(h)
		seen := map[string]bool{}
		if c != nil && meta != nil {
			id := types.BlockID{Hash: meta.Hash, PartsHeader: meta.PartsHeader}
			for _, pc := range c.Precommits {
				if pc == nil || pc.Height != h || pc.Type != types.VoteTypePrecommit || !pc.BlockID.Equals(id) || seen[string(pc.ValidatorAddress)] {
					continue
				}
				k := w.keyOf(pc.ValidatorAddress)
				if k == nil || !k.PubKey().VerifyBytes(types.SignBytes(fullnode.ChainID, pc), pc.Signature) {
					continue
				}
				seen[string(pc.ValidatorAddress)] = true
				signed += vals[string(pc.ValidatorAddress)]
			}
		}
		if 3*signed <= 2*total {
			w.viol("C13", "stored-without-justification", fmt.Sprintf("%v", w.tamperAt(reactors, h+1)), "the syncing node stored block %d with a commit that carries valid precommits for it from %d of %d voting power (peers served height %d as %v)", h, signed, total, h+1, w.tamperAt(reactors, h+1))
		}
	}
	if got > H {
		w.viol("C13", "stored-beyond-source", "height", "the syncing node is at height %d, the source chain has %d blocks", got, H)
	}
	st := inc.State
	if st.LastBlockHeight >= 1 && st.LastBlockHeight <= H {
		h := st.LastBlockHeight
		if !bytes.Equal(st.AppHash, w.refApp[h-1]) || !bytes.Equal(st.ReceiptsHash, w.refRcpt[h-1]) {
			w.viol("C13", "state-differs-after-sync", "apphash", "after syncing to height %d the node's application hash %X / receipts hash %X differ from the live replicas' %X / %X", h, fp(st.AppHash), fp(st.ReceiptsHash), fp(w.refApp[h-1]), fp(w.refRcpt[h-1]))
		}
		if want := w.valHist[h]; want != nil && !sameVals(valsOf(st.Validators), want) {
			w.viol("C13", "state-differs-after-sync", "validators", "after syncing to height %d the node's validator set is %s, the live replicas had %s", h, w.showVals(valsOf(st.Validators)), w.showVals(want))
		}
	}
	if allHonest && !reached && len(out.Violations) == 0 {
		w.viol("C13", "sync-stalled", "honest-peers", "with %d honest peers only the node reached height %d of %d in %d simulated seconds", npeers, got, target, budget)
	}
	if reached {
		out.Probes["sync-caught-up"]++
		if !allHonest {
			out.Probes["sync-caught-up-despite-malicious-peers"]++
		}
	} else if !allHonest {
		out.Probes["sync-not-finished-with-malicious-peers"]++
	}
	// shut down
	for _, sw := range switches {
		sw := sw
		w.reg.GoAs(po, "puppet-stop", func() { sw.Stop() })
	}
	inc.Life.Kill("end of sync")
	w.reg.GoAs(inc, "sync-stop", func() { inc.Sw.Stop() })
	synctest.Wait()
	inc.Quiesce()
}

func (w *world) tamperAt(rs []*scriptedReactor, h int64) []string {
	var r []string
	for _, x := range rs {
		k := x.script[h]
		if k == "" {
			k = "honest"
		}
		r = append(r, k)
	}
	return r
}

package execsim

// A network of real full nodes (second half of C12, and C01/C02 on the production stack): every
// validator is a complete node - Angine, EVM application, consensus state with its real timeout
// ticker, consensus / mempool / block-sync reactors, Switch, MConnection, SecretConnection - and
// the nodes are connected pairwise by simulated links, so votes, proposals and block parts travel
// only through the real gossip routines. Faults: links cut and re-established, one-way stalls of
// a link, node crashes (process death at the next durable write, all its links closed) and
// restarts from disk, transactions submitted at random nodes. After the fault phase every link is
// re-established and the clock runs on: the heights must advance on every node. At every
// observation point the block stores must agree on their common prefix.

import (
	"bytes"
	"fmt"
	"os"
	"testing/synctest"
	"time"

	etypes "github.com/dappledger/AnnChain/eth/core/types"
	"github.com/dappledger/AnnChain/eth/rlp"
	crypto "github.com/dappledger/AnnChain/gemmill/go-crypto"
	"github.com/dappledger/AnnChain/gemmill/types"

	"math/big"

	"verif/simnet"
	"verif/simrt"
	"verif/sims/fullnode"
)

type netLink struct {
	a, b int
	l    *simnet.Link
	up   bool
}

type netWorld struct {
	w     *world
	nodes []*fullnode.Node
	links map[[2]int]*netLink
	seq   int
	// finding F1 (the proposer cache does not survive persistence): what nodes that did not reload computed as
	// round-0 proposer of a height is handed to a node that restarts at that height, so that the network is
	// explored beyond F1; a restart nobody could compensate is remembered and names the finding if the run stalls
	cleanProp     map[int64][]byte
	startHeight   map[*fullnode.Inc]int64
	uncompensated bool
}

func generateNet(r *simrt.Rand, cfg config) simrt.Case {
	cfg.Replicas = 4
	if r.Chance(1, 4) {
		cfg.Replicas = 3
	}
	cfg.Accounts = 2
	cfg.Powers = nil
	for i := 0; i < cfg.Replicas; i++ {
		cfg.Powers = append(cfg.Powers, []int64{1, 1, 2, 3, 10}[r.Intn(5)])
	}
	var acts []simrt.Action
	steps := 8 + r.Intn(16)
	crashes := 0
	for i := 0; i < steps; i++ {
		switch r.Pick([]int{30, 25, 10, 10, 8, 8}) {
		case 0:
			acts = append(acts, simrt.Action{K: "run", A: int64([]int{200, 500, 1000, 3000, 8000}[r.Intn(5)])})
		case 1:
			acts = append(acts, simrt.Action{K: "nettx", N: r.Intn(cfg.Replicas), A: int64(r.Intn(cfg.Accounts)), B: int64(r.Intn(1 << 16))})
		case 2:
			acts = append(acts, simrt.Action{K: "cut", N: r.Intn(cfg.Replicas), A: int64(r.Intn(cfg.Replicas))})
		case 3:
			acts = append(acts, simrt.Action{K: "mend", N: r.Intn(cfg.Replicas), A: int64(r.Intn(cfg.Replicas))})
		case 4:
			if crashes < 2 {
				crashes++
				// the process dies between two slices of simulated time (A = 0): where exactly an armed crash would
				// land among the writes of concurrently running goroutines is not decided by the simulator here, and
				// crash points inside a commit are the subject of C06/C07, which enumerate them
				acts = append(acts, simrt.Action{K: "netcrash", N: r.Intn(cfg.Replicas)})
			}
		case 5:
			acts = append(acts, simrt.Action{K: "netrestart", N: r.Intn(cfg.Replicas)})
		}
	}
	acts = append(acts, simrt.Action{K: "heal"})
	bz, _ := jsonMarshal(cfg)
	return simrt.Case{Config: bz, Actions: acts}
}

func (nw *netWorld) key(a, b int) [2]int {
	if a > b {
		a, b = b, a
	}
	return [2]int{a, b}
}

func (nw *netWorld) connect(a, b int) {
	if a == b {
		return
	}
	w := nw.w
	na, nb := nw.nodes[a], nw.nodes[b]
	if !na.Inc.Alive() || !nb.Inc.Alive() {
		return
	}
	k := nw.key(a, b)
	if l := nw.links[k]; l != nil && l.up {
		return
	}
	nw.seq++
	l := simnet.NewLink(fmt.Sprintf("10.1.%d.%d:%d", a, b, nw.seq), fmt.Sprintf("10.1.%d.%d:%d", b, a, nw.seq), func(f func()) { w.reg.GoAs(na.Inc, "relay", f) })
	nw.links[k] = &netLink{a: a, b: b, l: l, up: true}
	w.reg.GoAs(na.Inc, "net-accept", func() { na.Inc.Sw.AddPeerWithConnection(l.A, false) })
	w.reg.GoAs(nb.Inc, "net-dial", func() { nb.Inc.Sw.AddPeerWithConnection(l.B, true) })
	synctest.Wait()
}

func (nw *netWorld) cut(a, b int) {
	k := nw.key(a, b)
	if l := nw.links[k]; l != nil && l.up {
		l.l.A.Close()
		l.l.B.Close()
		l.up = false
		nw.w.out.Faults["link_cut"]++
		synctest.Wait()
	}
}

func (nw *netWorld) run(ms int64) {
	for t := int64(0); t < ms; t += 50 {
		time.Sleep(50 * time.Millisecond)
		synctest.Wait()
		nw.noteProposers()
	}
}

func (nw *netWorld) startNode(i int) bool {
	w := nw.w
	nd := nw.nodes[i]
	inc := nd.NewInc()
	ok := w.call(inc, "net-build", func() {
		inc.Build(w.env)
		h := inc.State.LastBlockHeight + 1
		nw.startHeight[inc] = h
		if inc.Gen > 1 {
			if addr := nw.cleanProp[h]; addr != nil {
				if inc.CS.Validators.VerifSetProposer(addr) {
					w.out.Probes["proposer_cache_compensated"]++
				}
			} else {
				nw.uncompensated = true
				w.out.Probes["proposer_cache_not_compensated"]++
			}
		}
		inc.StartReactors()
	})
	if !ok && (inc.PanicSite != "" || inc.Exited != "") {
		w.viol("C06", "recovery-failed", failReason(inc), "node %d did not come up from its disk: %s %s", i, inc.PanicVal, inc.Exited)
	}
	return ok
}

// checkPrefix: C01/C02 on the stores. Any two nodes agree on every height both have.
func (nw *netWorld) checkPrefix() {
	w := nw.w
	w.out.Evals["C01.net-prefix"]++
	var ref *fullnode.Node
	for _, nd := range nw.nodes {
		if nd.Inc == nil || nd.Inc.Store == nil {
			continue
		}
		if ref == nil || nd.Inc.Store.Height() > ref.Inc.Store.Height() {
			ref = nd
		}
	}
	if ref == nil {
		return
	}
	for _, nd := range nw.nodes {
		if nd == ref || nd.Inc == nil || nd.Inc.Store == nil {
			continue
		}
		for h := int64(1); h <= nd.Inc.Store.Height(); h++ {
			a, b := nd.Inc.Store.LoadBlockMeta(h), ref.Inc.Store.LoadBlockMeta(h)
			if a == nil || b == nil {
				continue
			}
			if !bytes.Equal(a.Hash, b.Hash) {
				w.viol("C01", "agreement", "net", "nodes %d and %d stored different blocks at height %d: %X vs %X", nd.ID, ref.ID, h, fp(a.Hash), fp(b.Hash))
				return
			}
		}
	}
}

func (w *world) runNet(c simrt.Case) {
	out := w.out
	nw := &netWorld{w: w, links: map[[2]int]*netLink{}, cleanProp: map[int64][]byte{}, startHeight: map[*fullnode.Inc]int64{}}
	cfg := w.cfg
	// every node is a validator holding its own key
	var gv []types.GenesisValidator
	var keys []crypto.PrivKeyEd25519
	for i := 0; i < cfg.Replicas; i++ {
		k := crypto.GenPrivKeyEd25519FromSecret([]byte(fmt.Sprintf("execsim-net-%d-%d", cfg.Seed, i)))
		keys = append(keys, k)
		gv = append(gv, types.GenesisValidator{PubKey: k.PubKey(), Amount: cfg.Powers[i], Name: fmt.Sprintf("n%d", i), IsCA: true})
	}
	w.env.Genesis.Validators = gv
	w.env.RealTicker = true
	w.env.AuthByCA = false
	w.env.Timeouts = [7]int{3000, 500, 1000, 500, 1000, 500, 1000}
	for i := 0; i < cfg.Replicas; i++ {
		nd := fullnode.NewNode(100+i, keys[i], w.base)
		nw.nodes = append(nw.nodes, nd)
		if !nw.startNode(i) {
			w.viol("C12", "net-node-start-failed", "start", "node %d did not start: %s", i, nd.Inc.PanicVal)
			return
		}
	}
	mesh := func() {
		for a := 0; a < cfg.Replicas; a++ {
			for b := a + 1; b < cfg.Replicas; b++ {
				nw.connect(a, b)
			}
		}
	}
	mesh()
	heights := func() []int64 {
		var hs []int64
		for _, nd := range nw.nodes {
			if nd.Inc == nil || nd.Inc.Store == nil {
				hs = append(hs, -1) // did not come up
				continue
			}
			hs = append(hs, nd.Inc.Store.Height())
		}
		return hs
	}
	txn := map[int]uint64{}
	for _, a := range c.Actions {
		out.Steps++
		if len(out.Violations) > 0 {
			break
		}
		switch a.K {
		case "run":
			nw.run(a.A)
		case "nettx":
			nd := nw.nodes[a.N%len(nw.nodes)]
			if !nd.Inc.Alive() {
				continue
			}
			ai := int(a.A) % len(w.accts)
			acct := w.accts[ai]
			tx := etypes.NewTransaction(txn[ai], w.accts[(ai+1)%len(w.accts)].addr, big.NewInt(0), 5000000, big.NewInt(0), []byte(fmt.Sprintf("n%d", a.B)))
			stx, err := etypes.SignTx(tx, etypes.HomesteadSigner{}, acct.key)
			if err != nil {
				panic(err)
			}
			raw, _ := rlp.EncodeToBytes(stx)
			inc := nd.Inc
			var rerr error
			w.call(inc, "net-submit", func() { rerr = inc.Pool.ReceiveTx(types.Tx(raw)) })
			if rerr == nil {
				txn[ai]++
				out.Probes["net-tx-accepted"]++
			}
		case "cut":
			nw.cut(a.N%cfg.Replicas, int(a.A)%cfg.Replicas)
		case "mend":
			nw.connect(a.N%cfg.Replicas, int(a.A)%cfg.Replicas)
		case "netcrash":
			nd := nw.nodes[a.N%len(nw.nodes)]
			if !nd.Inc.Alive() {
				continue
			}
			out.Faults["node_crash"]++
			if a.A > 0 {
				nd.Inc.Life.ArmCrash(int(a.A))
				nw.run(1500)
			}
			nd.Inc.Life.Kill("crash")
			for k, l := range nw.links {
				if k[0] == a.N%len(nw.nodes) || k[1] == a.N%len(nw.nodes) {
					if l.up {
						l.l.A.Close()
						l.l.B.Close()
						l.up = false
					}
				}
			}
			synctest.Wait()
			nd.Inc.Quiesce()
		case "netrestart":
			i := a.N % len(nw.nodes)
			if nw.nodes[i].Inc.Alive() {
				continue
			}
			out.Faults["node_restart"]++
			if nw.startNode(i) {
				for j := range nw.nodes {
					nw.connect(i, j)
				}
			}
		case "heal":
			// ---- the fair period: every node up, every link up, time runs
			for i, nd := range nw.nodes {
				if !nd.Inc.Alive() && nd.Inc.PanicSite == "" {
					nw.startNode(i)
				}
			}
			if len(out.Violations) > 0 {
				break // a node did not come up from its disk (reported)
			}
			mesh()
			before := heights()
			var maxb int64
			for _, h := range before {
				if h > maxb {
					maxb = h
				}
			}
			ok := false
			for i := 0; i < 240 && !ok; i++ { // up to 240 simulated seconds
				nw.run(1000)
				mesh() // connections that timed out are re-established, as the dial loop of a real node does
				ok = true
				for _, h := range heights() {
					if h < maxb+2 {
						ok = false
					}
				}
				for _, nd := range nw.nodes {
					if nd.Inc.PanicSite != "" {
						ok = true
					}
				}
			}
			out.Evals["C12.net-progress"]++
			w.lg.Add("net heal progress=%v", ok)
			if os.Getenv("VERIF_DEBUG_SEED") != "" {
				fmt.Printf("  net: heights before heal %v, after %v, progress %v\n", before, heights(), ok)
			}
			if !ok && os.Getenv("VERIF_DEBUG_SEED") != "" {
				for _, nd := range nw.nodes {
					rs := nd.Inc.CS.GetRoundState()
					if wl, err := os.ReadFile(nd.Dir + "/cs.wal/wal"); err == nil {
						lines := bytes.Split(wl, []byte("\n"))
						fmt.Printf("  node %d WAL: %d lines\n", nd.ID, len(lines))
						for _, l := range lines {
							if len(l) > 150 {
								l = append(append([]byte{}, l[:150]...), []byte("...")...)
							}
							fmt.Printf("    %s\n", l)
						}
					}
					if pv, err := os.ReadFile(nd.Dir + "/priv_validator.json"); err == nil {
						fmt.Printf("  node %d signer file: %.400s\n", nd.ID, pv)
					}
					fmt.Printf("  node %d gen %d alive %v: h%d r%d step %v proposal %v block %v locked %v peers %d prevotes %v precommits %v\n", nd.ID, nd.Inc.Gen, nd.Inc.Alive(), rs.Height, rs.Round, rs.Step, rs.Proposal != nil, rs.ProposalBlock != nil, rs.LockedBlock != nil, nd.Inc.Sw.Peers().Size(), rs.Votes.Prevotes(rs.Round), rs.Votes.Precommits(rs.Round))
				}
			}
			if !ok {
				key := "stall"
				if nw.uncompensated {
					key = "stall+proposer-cache"
				}
				w.viol("C12", "net-no-progress-after-heal", key, "after every node and link was restored the heights went from %v to %v in 240 simulated seconds (every node should have passed %d)", before, heights(), maxb+2)
			}
		}
		for _, nd := range nw.nodes {
			if nd.Inc.PanicSite != "" {
				w.viol("C12", "net-node-panic", fullnode.PanicKey(nd.Inc.PanicVal, nd.Inc.PanicStk), "node %d panicked on goroutine %s: %.300s", nd.ID, nd.Inc.PanicSite, nd.Inc.PanicVal)
			}
		}
		nw.checkPrefix()
		nw.noteProposers()
	}
	// state agreement at the common height
	var common int64 = 1 << 60
	for _, h := range heights() {
		if h >= 0 && h < common {
			common = h
		}
	}
	if common == 1<<60 {
		common = 0
	}
	out.Probes["net-blocks-committed"] += int(common)
	nf := 0
	for _, n := range out.Faults {
		nf += n
	}
	out.Nontrivial = common > 1
	out.Sample = map[string]interface{}{"nodes": cfg.Replicas, "common_height": common, "faults": out.Faults}
	for _, nd := range nw.nodes {
		nd.Inc.Life.Kill("end")
	}
	for _, l := range nw.links {
		l.l.A.Close()
		l.l.B.Close()
	}
	for _, nd := range nw.nodes {
		inc := nd.Inc
		if inc.Sw != nil {
			w.reg.GoAs(inc, "net-stop", func() { inc.Sw.Stop() })
		}
	}
	synctest.Wait()
	for _, nd := range nw.nodes {
		nd.Inc.Quiesce()
	}
}

func (nw *netWorld) noteProposers() {
	for _, nd := range nw.nodes {
		inc := nd.Inc
		if inc == nil || !inc.Alive() || inc.State == nil {
			continue
		}
		st := inc.State
		h := st.LastBlockHeight + 1
		if st.Validators == nil || !st.Validators.VerifProposerCached() || (inc.Gen > 1 && nw.startHeight[inc] == h) {
			continue
		}
		if _, ok := nw.cleanProp[h]; !ok {
			nw.cleanProp[h] = append([]byte{}, st.Validators.Proposer().Address...)
		}
	}
}

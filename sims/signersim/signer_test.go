// Package signersim drives the real types.PrivValidator (real signer file,
// real WriteFileAtomic) through request histories and, for every request of a
// history, through every crash point and every write failure of the durable
// write. Property C03.
package signersim

import (
	"bytes"
	"encoding/json"
	"fmt"
	"os"
	"path/filepath"
	"testing"

	crypto "github.com/dappledger/AnnChain/gemmill/go-crypto"
	gcmn "github.com/dappledger/AnnChain/gemmill/modules/go-common"
	"github.com/dappledger/AnnChain/gemmill/types"

	"verif/simrt"
)

const chainID = "signersim"

func init() { crypto.NodeInit(crypto.CryptoType) }

type config struct {
	Seed uint64 `json:"seed"`
}

// request alphabet: heights 1-3, rounds 0-2, three steps, three block ids
func generate(seed uint64, prop string) simrt.Case {
	r := simrt.NewRand(seed)
	n := 2 + r.Intn(9)
	var acts []simrt.Action
	h, rd := int64(1), int64(0)
	for i := 0; i < n; i++ {
		switch r.Pick([]int{40, 15, 10, 15, 10, 10}) {
		case 0: // next step, same h/r
		case 1:
			rd++
		case 2:
			h++
			rd = 0
		case 3: // repeat same HRS with another block (equivocation attempt)
		case 4: // regression
			if rd > 0 {
				rd--
			} else if h > 1 {
				h--
			}
		case 5:
			h, rd = int64(1+r.Intn(3)), int64(r.Intn(3))
		}
		if h > 3 {
			h = 3
		}
		if rd > 2 {
			rd = 2
		}
		kind := []string{"prop", "prevote", "precommit"}[r.Intn(3)]
		acts = append(acts, simrt.Action{K: kind, A: h, B: rd, C: int64(r.Intn(3))})
	}
	b, _ := json.Marshal(config{Seed: seed})
	return simrt.Case{Config: b, Actions: acts}
}

type rec struct {
	h, r int64
	step int8
	sb   []byte
	desc string
}

func cmp(a, b rec) int {
	switch {
	case a.h != b.h:
		if a.h < b.h {
			return -1
		}
		return 1
	case a.r != b.r:
		if a.r < b.r {
			return -1
		}
		return 1
	case a.step != b.step:
		if a.step < b.step {
			return -1
		}
		return 1
	}
	return 0
}

type crashPanic struct{}

var stages = []string{"", "crash@atomic-bak", "crash@atomic-new", "crash@atomic-rename", "error@atomic-bak", "error@atomic-new", "error@atomic-rename"}

func blockID(c int64) types.BlockID {
	if c == 0 {
		return types.BlockID{}
	}
	h := bytes.Repeat([]byte{byte(c)}, 20)
	return types.BlockID{Hash: h, PartsHeader: types.PartSetHeader{Total: 1, Hash: h}}
}

// runVariant executes the history with one injection (stage at request q; q<0: none) and
// an optional reload after request reloadAfter. It returns violations found.
func runVariant(dir string, key crypto.PrivKeyEd25519, acts []simrt.Action, q int, stage string, reloadAfter int, out *simrt.Outcome, lg *simrt.Log) (reached bool) {
	path := filepath.Join(dir, "priv_validator.json")
	os.Remove(path)
	os.Remove(path + ".bak")
	os.Remove(path + ".new")
	pv, _ := types.GenPrivValidator(crypto.CryptoType, key)
	pv.SetFile(path)
	if err := pv.Save(); err != nil {
		panic(err)
	}
	var released []rec
	viol := func(oracle, key, f string, a ...interface{}) {
		for _, v := range out.Violations {
			if v.Oracle == oracle && v.Key == key {
				return
			}
		}
		out.Violations = append(out.Violations, simrt.Violation{Property: "C03", Oracle: oracle, Key: key, Msg: fmt.Sprintf(f, a...)})
	}
	reload := func(why string) {
		out.Evals["C03.reload"]++
		n, err := types.LoadPrivValidator(path)
		if err != nil {
			viol("signer-file-unreadable", stage, "after %s the signer file does not load: %v", why, err)
			return
		}
		if len(n.Address) == 0 {
			n.Address = n.PubKey.Address()
		}
		wm := rec{h: n.LastHeight, r: n.LastRound, step: n.LastStep}
		for _, rc := range released {
			if cmp(rc, wm) > 0 {
				viol("not-durable", stageKind(stage), "a signature for h=%d r=%d step=%d (%s) was released, but after %s the durable watermark is h=%d r=%d step=%d: the record that forbids contradicting it was not durable", rc.h, rc.r, rc.step, rc.desc, why, wm.h, wm.r, wm.step)
				break
			}
		}
		pv = n
	}
	for i, a := range acts {
		armed := ""
		if i == q {
			armed = stage
		}
		gcmn.VerifPointHook = func(op, p string) error {
			if armed == "" {
				return nil
			}
			if armed == "crash@"+op {
				reached = true
				panic(crashPanic{})
			}
			if armed == "error@"+op {
				reached = true
				armed = ""
				return fmt.Errorf("injected: no space left on device")
			}
			return nil
		}
		var sb []byte
		var step int8
		var err error
		crashed := false
		func() {
			defer func() {
				if r := recover(); r != nil {
					if _, ok := r.(crashPanic); ok {
						crashed = true
						return
					}
					panic(r)
				}
			}()
			switch a.K {
			case "prop":
				p := types.NewProposal(a.A, a.B, blockID(a.C+1).PartsHeader, -1, types.BlockID{})
				step = 1
				err = pv.SignProposal(chainID, p)
				sb = types.SignBytes(chainID, p)
			default:
				t := types.VoteTypePrevote
				step = 2
				if a.K == "precommit" {
					t, step = types.VoteTypePrecommit, 3
				}
				v := &types.Vote{ValidatorAddress: pv.GetAddress(), ValidatorIndex: 0, Height: a.A, Round: a.B, Type: t, BlockID: blockID(a.C)}
				err = pv.SignVote(chainID, v)
				sb = types.SignBytes(chainID, v)
			}
		}()
		gcmn.VerifPointHook = nil
		out.Evals["C03.request"]++
		if crashed {
			// process died inside the durable write: nothing was released
			lg.Add("%d crash %s", i, stage)
			reload("a crash at " + stage)
			continue
		}
		if err == nil {
			rc := rec{a.A, a.B, step, sb, fmt.Sprintf("%s blk%d", a.K, a.C)}
			for _, old := range released {
				if cmp(rc, old) == 0 && !bytes.Equal(old.sb, rc.sb) {
					viol("equivocation", stageKind(stage), "two different signatures released for h=%d r=%d step=%d: %q then %q (injection %q at request %d)", rc.h, rc.r, rc.step, old.desc, rc.desc, stage, q)
				}
			}
			for _, old := range released {
				if cmp(rc, old) < 0 {
					viol("regression", stageKind(stage), "signed h=%d r=%d step=%d after h=%d r=%d step=%d (injection %q at request %d)", rc.h, rc.r, rc.step, old.h, old.r, old.step, stage, q)
					break
				}
			}
			released = append(released, rc)
			lg.Add("%d ok %d/%d/%d", i, rc.h, rc.r, rc.step)
		} else {
			lg.Add("%d refused", i)
		}
		if i == reloadAfter {
			reload(fmt.Sprintf("a restart following request %d", i))
		}
	}
	reload("the end of the history")
	return reached
}

func stageKind(stage string) string {
	if len(stage) >= 5 && stage[:5] == "error" {
		return "write-error"
	}
	if stage == "" {
		return "no-fault"
	}
	return "crash"
}

func execute(t *testing.T, prop string, c simrt.Case) (out simrt.Outcome) {
	var cfg config
	json.Unmarshal(c.Config, &cfg)
	out = simrt.Outcome{Faults: map[string]int{}, Probes: map[string]int{}, Evals: map[string]int{}}
	var lg simrt.Log
	dir, err := os.MkdirTemp("", "signersim-")
	if err != nil {
		panic(err)
	}
	defer os.RemoveAll(dir)
	defer func() { gcmn.VerifPointHook = nil; out.LogHash = lg.Hash() }()
	key := crypto.GenPrivKeyEd25519FromSecret([]byte(fmt.Sprintf("signer-%d", cfg.Seed)))
	// fault-free run first (separately, so that a relaxation under faults can hide nothing)
	runVariant(dir, key, c.Actions, -1, "", -1, &out, &lg)
	out.Cases++
	for q := range c.Actions {
		for _, st := range stages[1:] {
			for _, ra := range []int{-1, q} {
				if ra == q && st[:5] == "crash" {
					continue // a crash already reloads
				}
				reached := runVariant(dir, key, c.Actions, q, st, ra, &out, &lg)
				out.Cases++
				if reached {
					out.Faults[st]++
					out.DistinctCases++
				}
			}
		}
	}
	out.Steps = out.Cases
	out.Nontrivial = out.DistinctCases > 0
	var reqs []string
	for _, a := range c.Actions {
		reqs = append(reqs, fmt.Sprintf("%s h%d r%d blk%d", a.K, a.A, a.B, a.C))
	}
	out.Sample = map[string]interface{}{"history": reqs, "injections_reached": out.DistinctCases, "variants_run": out.Cases}
	return out
}

func TestWorker(t *testing.T) {
	simrt.WorkerMain(t, simrt.Engine{Name: "signersim", Generate: generate, Execute: execute})
}

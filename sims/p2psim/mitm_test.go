package p2psim

// An active man in the middle: Mallory terminates the key exchange on both sides with her own
// ephemeral key pair (chosen, like a real attacker would, to sort below both victims' keys when
// she can), then relays the authentication frames - decrypting with the key she shares with the
// sender and re-encrypting with the key she shares with the receiver - and after that every data
// frame, reading the plaintext. If either endpoint comes out of the handshake having authenticated
// the other endpoint's key, the connection is "authenticated" and read by a third party.

import (
	"bytes"
	"crypto/sha256"
	"encoding/binary"
	"fmt"
	"io"
	"os"
	"sync/atomic"
	"testing/synctest"

	"golang.org/x/crypto/nacl/box"
	"golang.org/x/crypto/nacl/secretbox"
	"golang.org/x/crypto/ripemd160"

	"github.com/dappledger/AnnChain/gemmill/p2p"

	"verif/simnet"
	"verif/simrt"
)

type detRand struct{ r *simrt.Rand }

func (d detRand) Read(p []byte) (int, error) {
	copy(p, d.r.Bytes(len(p)))
	return len(p), nil
}

func mNonces(lo, hi *[32]byte, locIsLo bool) (recv, send *[24]byte) {
	h := ripemd160.New()
	h.Write(append(append([]byte{}, lo[:]...), hi[:]...))
	n1 := new([24]byte)
	copy(n1[:], h.Sum(nil))
	n2 := new([24]byte)
	copy(n2[:], n1[:])
	n2[23] ^= 1
	if locIsLo {
		return n1, n2
	}
	return n2, n1
}

func incr2(n *[24]byte) {
	for k := 0; k < 2; k++ {
		for i := 23; i >= 0; i-- {
			n[i]++
			if n[i] != 0 {
				break
			}
		}
	}
}

type mSide struct {
	conn       *simnet.Conn
	secret     [32]byte
	recv, send *[24]byte
}

func (s *mSide) setup(mPub, mPriv, remPub *[32]byte) {
	box.Precompute(&s.secret, remPub, mPriv)
	lo, hi := mPub, remPub
	if bytes.Compare(remPub[:], mPub[:]) < 0 {
		lo, hi = remPub, mPub
	}
	s.recv, s.send = mNonces(lo, hi, lo == mPub)
}

func (s *mSide) readFrame() ([]byte, error) {
	sealed := make([]byte, sealedFrameSize)
	if _, err := io.ReadFull(s.conn, sealed); err != nil {
		return nil, err
	}
	frame, ok := secretbox.Open(nil, sealed, s.recv, &s.secret)
	if !ok {
		return nil, fmt.Errorf("mallory cannot decrypt")
	}
	incr2(s.recv)
	return frame, nil
}

func (s *mSide) writeFrame(frame []byte) error {
	sealed := secretbox.Seal(nil, frame, s.send, &s.secret)
	incr2(s.send)
	_, err := s.conn.Write(sealed)
	return err
}

func (w *world) runMITM(acts []simrt.Action) {
	out := w.out
	pass := func(f func()) { w.goOwned("relay", f) }
	l1 := simnet.NewLink("a:1", "m:1", pass) // A <-> Mallory
	l2 := simnet.NewLink("m:2", "b:1", pass) // Mallory <-> B
	ka, kb := keys(w.cfg.Seed)
	var sa, sb *p2p.SecretConnection
	var ea, eb error
	w.goOwned("hs-a", func() { sa, ea = p2p.MakeSecretConnection(l1.A, ka) })
	w.goOwned("hs-b", func() { sb, eb = p2p.MakeSecretConnection(l2.B, kb) })
	lowKey := len(acts) == 0 || acts[0].A%3 != 0
	var plaintext, relayed int64 // written by both relay directions
	w.goOwned("mallory", func() {
		var aPub, bPub [32]byte
		if _, err := io.ReadFull(l1.B, aPub[:]); err != nil {
			return
		}
		if _, err := io.ReadFull(l2.A, bPub[:]); err != nil {
			return
		}
		rnd := detRand{simrt.NewRand(w.cfg.Seed ^ 0x6d616c)}
		mPub, mPriv, _ := box.GenerateKey(rnd)
		if lowKey {
			for i := 0; i < 4000 && !(bytes.Compare(mPub[:], aPub[:]) < 0 && bytes.Compare(mPub[:], bPub[:]) < 0); i++ {
				mPub, mPriv, _ = box.GenerateKey(rnd)
			}
		}
		l1.B.Write(mPub[:])
		l2.A.Write(mPub[:])
		toA, toB := &mSide{conn: l1.B}, &mSide{conn: l2.A}
		toA.setup(mPub, mPriv, &aPub)
		toB.setup(mPub, mPriv, &bPub)
		relay := func(from, to *mSide) {
			for {
				f, err := from.readFrame()
				if err != nil {
					return
				}
				atomic.AddInt64(&plaintext, int64(binary.BigEndian.Uint16(f)))
				atomic.AddInt64(&relayed, 1)
				if to.writeFrame(f) != nil {
					return
				}
			}
		}
		w.goOwned("mallory-ab", func() { relay(toA, toB) })
		relay(toB, toA)
	})
	out.Faults["active_man_in_the_middle"]++
	synctest.Wait()
	l1.A.Close()
	l1.B.Close()
	l2.A.Close()
	l2.B.Close()
	synctest.Wait()
	out.Evals["C20.mitm"]++
	out.Probes["mitm_frames_decrypted_and_relayed"] += int(atomic.LoadInt64(&relayed))
	if os.Getenv("VERIF_DEBUG_SEED") != "" {
		fmt.Printf("mitm: low key %v, frames relayed %d, plaintext bytes %d, a: %v, b: %v\n", lowKey, relayed, plaintext, ea, eb)
	}
	w.lg.Add("mitm low-key=%v a-ok=%v b-ok=%v", lowKey, ea == nil && sa != nil, eb == nil && sb != nil)
	if ea == nil && sa != nil && sa.RemotePubKey().Equals(kb.PubKey()) {
		w.viol("man-in-the-middle-not-detected", "a", "endpoint A completed the handshake and authenticated B's key although a third party terminated the key exchange on both sides and re-encrypted every frame (it read %d plaintext bytes)", plaintext)
	}
	if eb == nil && sb != nil && sb.RemotePubKey().Equals(ka.PubKey()) {
		w.viol("man-in-the-middle-not-detected", "b", "endpoint B completed the handshake and authenticated A's key although a third party terminated the key exchange on both sides and re-encrypted every frame (it read %d plaintext bytes)", plaintext)
	}
	_ = sha256.New
}

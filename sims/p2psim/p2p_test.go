//go:debug randseednop=0

// Package p2psim: two endpoints and a man in the middle (property C20).
//
// stream mode: two real SecretConnections over a simulated link. Both sides write a known byte
// stream in seeded chunk sizes and read with seeded buffer sizes; the relay in the middle forwards
// the ciphertext unit by unit (unit 0 is the 32-byte ephemeral key, every further unit one sealed
// frame) and applies seeded operations to chosen units: flip a bit, drop, duplicate, swap with the
// next, replace by garbage, replay an earlier unit, cut in the middle and close.
//
// mconn mode: two real MConnections (over SecretConnections over the link) exchange messages of
// seeded sizes on three channels concurrently in both directions; optionally one message exceeds
// the receive capacity, optionally the relay tampers with a frame.
package p2psim

import (
	"bytes"
	"encoding/json"
	"fmt"
	"io"
	"os"
	"sync"
	"testing"
	"testing/synctest"
	"time"

	"github.com/spf13/viper"

	crypto "github.com/dappledger/AnnChain/gemmill/go-crypto"
	"github.com/dappledger/AnnChain/gemmill/go-wire"
	"github.com/dappledger/AnnChain/gemmill/p2p"
	"github.com/dappledger/AnnChain/simhook"

	"verif/simnet"
	"verif/simrt"
)

// units of one direction that belong to the handshake: the ephemeral key, then two sealed frames
// (length and body of the signed challenge)
const hsUnits = 3

const (
	ephKeySize      = 32
	sealedFrameSize = 1024 + 2 + 16
	frameData       = 1024
)

type config struct {
	Seed uint64 `json:"seed"`
	Mode string `json:"mode"`
	// mconn
	RecvCap int `json:"recv_capacity,omitempty"`
}

var faultMu sync.Mutex

var opKinds = []string{"flip", "drop", "dup", "swap", "garbage", "replay", "cut"}

func generate(seed uint64, prop string) simrt.Case {
	r := simrt.NewRand(seed)
	cfg := config{Seed: seed, Mode: "stream"}
	if r.Chance(2, 5) {
		cfg.Mode = "mconn"
	} else if r.Chance(1, 6) {
		cfg.Mode = "mitm"
		bz, _ := json.Marshal(cfg)
		return simrt.Case{Config: bz, Actions: []simrt.Action{{K: "mitm", A: int64(r.Intn(1 << 16))}}}
	}
	var acts []simrt.Action
	sizes := []int{0, 1, 2, 3, 10, 100, 1023, 1024, 1025, 2047, 2048, 2049, 3000, 5000}
	if cfg.Mode == "stream" {
		for dir := 0; dir < 2; dir++ {
			nw := 1 + r.Intn(8)
			for i := 0; i < nw; i++ {
				sz := sizes[r.Intn(len(sizes))]
				if r.Chance(1, 3) {
					sz = r.Intn(4000)
				}
				acts = append(acts, simrt.Action{K: "w", N: dir, A: int64(sz)})
			}
			nr := 1 + r.Intn(5)
			for i := 0; i < nr; i++ {
				sz := []int{1, 2, 7, 64, 500, 1023, 1024, 1025, 4096, 70000}[r.Intn(10)]
				acts = append(acts, simrt.Action{K: "r", N: dir, A: int64(sz)})
			}
		}
		if r.Chance(1, 8) {
			// a long stream in one direction and one frame replayed at a chosen distance (nonce periodicity)
			acts = nil
			for i := 0; i < 10; i++ {
				acts = append(acts, simrt.Action{K: "w", N: 0, A: 32768}, simrt.Action{K: "w", N: 1, A: 32768})
			}
			acts = append(acts, simrt.Action{K: "r", N: 0, A: 70000}, simrt.Action{K: "r", N: 1, A: 70000})
			dist := []int{1, 2, 64, 127, 128, 129, 255, 256}[r.Intn(8)]
			at := hsUnits + dist + r.Intn(20)
			acts = append(acts, simrt.Action{K: "op", N: r.Intn(2), A: int64(at), S: "replay-at", B: int64(dist)})
		} else if r.Chance(1, 2) {
			nops := 1 + r.Intn(2)
			for i := 0; i < nops; i++ {
				acts = append(acts, simrt.Action{K: "op", N: r.Intn(2), A: int64(r.Intn(9)), S: opKinds[r.Intn(len(opKinds))], B: int64(r.Intn(1 << 16))})
			}
		}
	} else {
		cfg.RecvCap = []int{2048, 5000, 20000}[r.Intn(3)]
		n := 3 + r.Intn(25)
		// go-wire puts a 3-byte length in front of payloads of 256..65535 bytes: these payloads make the
		// encoded message an exact multiple of the 1024-byte packet payload
		exact := []int{1021, 2045, 3069, 4093}
		for i := 0; i < n; i++ {
			sz := sizes[1+r.Intn(len(sizes)-1)]
			if r.Chance(1, 5) {
				sz = exact[r.Intn(len(exact))]
			}
			if sz > cfg.RecvCap-8 {
				sz = cfg.RecvCap - 8
			}
			if r.Chance(1, 4) {
				sz = cfg.RecvCap - 8 - r.Intn(3) // just below the capacity
			}
			acts = append(acts, simrt.Action{K: "m", N: r.Intn(2), A: int64(sz), B: int64(r.Intn(3))})
		}
		if r.Chance(1, 4) {
			acts = append(acts, simrt.Action{K: "m", N: r.Intn(2), A: int64(cfg.RecvCap + 1 + r.Intn(3000)), B: int64(r.Intn(3)), S: "oversize"})
		}
		if r.Chance(1, 3) {
			acts = append(acts, simrt.Action{K: "op", N: r.Intn(2), A: int64(hsUnits + r.Intn(12)), S: opKinds[r.Intn(len(opKinds))], B: int64(r.Intn(1 << 16))})
		}
	}
	bz, _ := json.Marshal(cfg)
	return simrt.Case{Config: bz, Actions: acts}
}

type world struct {
	cfg config
	out *simrt.Outcome
	lg  *simrt.Log
	reg *simrt.Registry
	own *owner
}

type owner struct {
	mu     sync.Mutex
	panics []string
}

func (o *owner) OnPanic(site string, v interface{}, stack []byte) {
	o.mu.Lock()
	o.panics = append(o.panics, fmt.Sprintf("%s: %v", site, v))
	o.mu.Unlock()
}
func (o *owner) Alive() bool { return true }

func (w *world) viol(oracle, key, f string, a ...interface{}) {
	for _, v := range w.out.Violations {
		if v.Oracle == oracle && v.Key == key {
			return
		}
	}
	w.out.Violations = append(w.out.Violations, simrt.Violation{Property: "C20", Oracle: oracle, Key: key, Msg: fmt.Sprintf(f, a...), Step: w.out.Steps})
	w.lg.Add("VIOLATION %s %s", oracle, key)
}

func stream(seed uint64, dir int, n int) []byte {
	return simrt.NewRand(seed*2+uint64(dir)+12345).Bytes(n)
}

// relayOps installs the operations on one direction of the link and returns a function that
// reports the first unit an operation touched (-1 none) and whether that operation lets the unit
// itself through once (dup, replay after).
func relayOps(d *simnet.Dir, ops []simrt.Action, faults map[string]int) func() (int, bool) {
	d.Cut = func(i int) int {
		if i == 0 {
			return ephKeySize
		}
		return sealedFrameSize
	}
	first, passes := -1, false
	var held []byte
	var seen [][]byte
	d.Op = func(i int, unit []byte) ([][]byte, bool) {
		seen = append(seen, append([]byte{}, unit...))
		if held != nil {
			h := held
			held = nil
			return [][]byte{unit, h}, false
		}
		for _, op := range ops {
			if int(op.A) != i {
				continue
			}
			if first < 0 {
				first = i
			}
			faultMu.Lock() // the two directions of a link run on goroutines of their own
			faults["relay_"+op.S]++
			faultMu.Unlock()
			switch op.S {
			case "flip":
				u := append([]byte{}, unit...)
				bit := int(op.B) % (len(u) * 8)
				u[bit/8] ^= 1 << uint(bit%8)
				return [][]byte{u}, false
			case "drop":
				return nil, false
			case "dup":
				passes = passes || first == i
				return [][]byte{unit, unit}, false
			case "swap":
				held = unit
				return nil, false
			case "garbage":
				return [][]byte{simrt.NewRand(uint64(op.B)).Bytes(len(unit))}, false
			case "replay":
				if i == 0 {
					return [][]byte{unit}, false
				}
				passes = passes || first == i
				return [][]byte{unit, seen[int(op.B)%i]}, false
			case "replay-at":
				// the frame `distance` units back is delivered in the place of this one
				return [][]byte{seen[i-int(op.B)]}, false
			case "cut":
				return [][]byte{unit[:int(op.B)%len(unit)]}, true
			}
		}
		return [][]byte{unit}, false
	}
	return func() (int, bool) { return first, passes }
}

func execute(t *testing.T, prop string, c simrt.Case) (out simrt.Outcome) {
	out = simrt.Outcome{Faults: map[string]int{}, Probes: map[string]int{}, Evals: map[string]int{}}
	var lg simrt.Log
	lg.Keep = os.Getenv("VERIF_DUMPLOG") != ""
	defer func() {
		if lg.Keep {
			for _, l := range lg.Text {
				fmt.Println("LOG", l)
			}
		}
	}()
	rp := simrt.Bubble(t, func() { run(c, &out, &lg) })
	if rp != nil {
		out.Violations = append(out.Violations, simrt.Violation{Property: "C20", Oracle: "harness-panic", Key: "root", Msg: fmt.Sprint(rp)})
	}
	out.LogHash = lg.Hash()
	return out
}

func run(c simrt.Case, out *simrt.Outcome, lg *simrt.Log) {
	var cfg config
	json.Unmarshal(c.Config, &cfg)
	w := &world{cfg: cfg, out: out, lg: lg, reg: simrt.NewRegistry(), own: &owner{}}
	simhook.GoHook = w.reg.Go
	defer func() { simhook.GoHook = nil }()
	start := time.Now()
	switch cfg.Mode {
	case "stream":
		w.runStream(c.Actions)
	case "mconn":
		w.runMConn(c.Actions)
	case "mitm":
		w.runMITM(c.Actions)
	}
	for _, p := range w.own.panics {
		w.viol("panic", "goroutine", "a goroutine of the transport panicked: %.300s", p)
	}
	out.SimSeconds = time.Since(start).Seconds()
	nf := 0
	for _, n := range out.Faults {
		nf += n
	}
	out.Nontrivial = nf > 0
	out.Steps = len(c.Actions)
	out.Sample = map[string]interface{}{"mode": cfg.Mode, "faults": out.Faults}
}

func (w *world) goOwned(site string, f func()) { w.reg.GoAs(w.own, site, f) }

func keys(seed uint64) (crypto.PrivKeyEd25519, crypto.PrivKeyEd25519) {
	return crypto.GenPrivKeyEd25519FromSecret([]byte(fmt.Sprintf("p2psim-a-%d", seed))), crypto.GenPrivKeyEd25519FromSecret([]byte(fmt.Sprintf("p2psim-b-%d", seed)))
}

// handshake runs MakeSecretConnection on both ends.
func (w *world) handshake(l *simnet.Link) (sa, sb *p2p.SecretConnection, ea, eb error) {
	ka, kb := keys(w.cfg.Seed)
	w.goOwned("hs-a", func() { sa, ea = p2p.MakeSecretConnection(l.A, ka) })
	w.goOwned("hs-b", func() { sb, eb = p2p.MakeSecretConnection(l.B, kb) })
	synctest.Wait()
	if (sa == nil && ea == nil) || (sb == nil && eb == nil) {
		// a side is still waiting for handshake bytes that will never come (dropped unit): close the link
		l.A.Close()
		l.B.Close()
		synctest.Wait()
	}
	if ea == nil && sa != nil && !sa.RemotePubKey().Equals(kb.PubKey()) {
		w.viol("wrong-identity", "a", "endpoint A authenticated %v, the key that signed is %v", sa.RemotePubKey(), kb.PubKey())
	}
	if eb == nil && sb != nil && !sb.RemotePubKey().Equals(ka.PubKey()) {
		w.viol("wrong-identity", "b", "endpoint B authenticated %v, the key that signed is %v", sb.RemotePubKey(), ka.PubKey())
	}
	return
}

func (w *world) runStream(acts []simrt.Action) {
	out := w.out
	l := simnet.NewLink("a:1", "b:1", func(f func()) { w.goOwned("relay", f) })
	var ops [2][]simrt.Action
	var writes, reads [2][]int
	for _, a := range acts {
		d := a.N & 1
		switch a.K {
		case "op":
			ops[d] = append(ops[d], a)
		case "w":
			writes[d] = append(writes[d], int(a.A))
		case "r":
			reads[d] = append(reads[d], int(a.A))
		}
	}
	touched := [2]func() (int, bool){relayOps(l.AB(), ops[0], out.Faults), relayOps(l.BA(), ops[1], out.Faults)}
	sa, sb, ea, eb := w.handshake(l)
	out.Evals["C20.handshake"]++
	hsTampered := false
	for d := 0; d < 2; d++ {
		if f, _ := touched[d](); f >= 0 && f < hsUnits {
			hsTampered = true
		}
	}
	if ea != nil || eb != nil || sa == nil || sb == nil {
		if !hsTampered {
			w.viol("handshake-failed", "untampered", "the handshake failed although no handshake unit was touched: %v / %v", ea, eb)
		}
		w.lg.Add("handshake failed tampered=%v", hsTampered)
		l.A.Close()
		l.B.Close()
		synctest.Wait()
		return
	}
	w.lg.Add("handshake ok tampered=%v", hsTampered)
	// direction 0: A writes, B reads; direction 1: B writes, A reads
	conns := [2][2]*p2p.SecretConnection{{sa, sb}, {sb, sa}}
	var sent, got [2][]byte
	var rerr [2]error
	var frames [2][]int // end offset of the payload of every data frame
	for d := 0; d < 2; d++ {
		total := 0
		for _, n := range writes[d] {
			for rest := n; rest > 0; {
				k := min(rest, frameData)
				rest -= k
				total += k
				frames[d] = append(frames[d], total)
			}
		}
		sent[d] = stream(w.cfg.Seed, d, total)
	}
	for d := 0; d < 2; d++ {
		d := d
		wr, rd := conns[d][0], conns[d][1]
		w.goOwned("writer", func() {
			off := 0
			for _, n := range writes[d] {
				k, err := wr.Write(sent[d][off : off+n])
				if err != nil || k != n {
					w.lg.Add("dir %d write of %d returned %d %v", d, n, k, err != nil)
					return
				}
				off += n
			}
		})
		w.goOwned("reader", func() {
			i := 0
			for len(got[d]) < len(sent[d]) {
				buf := make([]byte, reads[d][i%len(reads[d])])
				i++
				n, err := rd.Read(buf)
				got[d] = append(got[d], buf[:n]...)
				if err != nil {
					rerr[d] = err
					return
				}
				if len(got[d]) > len(sent[d])+8192 {
					return
				}
			}
		})
	}
	synctest.Wait()
	// whoever still waits for bytes that were dropped gets an end of stream now
	l.A.Close()
	l.B.Close()
	synctest.Wait()
	for d := 0; d < 2; d++ {
		out.Evals["C20.stream"]++
		first, passes := touched[d]()
		w.lg.Add("dir %d sent %d got %d err %v first-touched %d", d, len(sent[d]), len(got[d]), rerr[d] != nil, first)
		if os.Getenv("VERIF_DEBUG_SEED") != "" {
			fmt.Printf("dir %d: writes %v reads %v sent %d got %d err %v first touched unit %d\n", d, writes[d], reads[d], len(sent[d]), len(got[d]), rerr[d], first)
		}
		if !bytes.HasPrefix(sent[d], got[d]) {
			at := 0
			for at < len(got[d]) && at < len(sent[d]) && got[d][at] == sent[d][at] {
				at++
			}
			key := "untampered"
			if first >= 0 {
				key = "tampered"
			}
			w.viol("stream-not-a-prefix", key, "direction %d: the receiver obtained %d bytes that are not a prefix of the %d bytes written (first difference at offset %d; write sizes %v, read buffer sizes %v, first unit touched by the relay: %d)", d, len(got[d]), len(sent[d]), at, writes[d], reads[d], first)
			continue
		}
		if first < 0 {
			if len(got[d]) != len(sent[d]) {
				w.viol("stream-incomplete", "untampered", "direction %d: %d of %d bytes arrived although nothing was touched (error %v; write sizes %v, read buffer sizes %v)", d, len(got[d]), len(sent[d]), rerr[d], writes[d], reads[d])
			}
			continue
		}
		// the first touched unit is data frame number first-hsUnits
		fi := first - hsUnits
		if fi < 0 {
			continue
		}
		if passes {
			fi++
		}
		allowed := 0
		if fi > 0 {
			allowed = frames[d][min(fi, len(frames[d]))-1]
		}
		if fi >= len(frames[d]) {
			allowed = len(sent[d])
		}
		if len(got[d]) > allowed {
			w.viol("tampering-not-detected", "stream", "direction %d: the relay touched unit %d, yet %d bytes were delivered (at most %d precede the touched frame)", d, first, len(got[d]), allowed)
		}
	}
}

func (w *world) runMConn(acts []simrt.Action) {
	out := w.out
	l := simnet.NewLink("a:1", "b:1", func(f func()) { w.goOwned("relay", f) })
	var ops [2][]simrt.Action
	for _, a := range acts {
		if a.K == "op" {
			ops[a.N&1] = append(ops[a.N&1], a)
		}
	}
	touched := [2]func() (int, bool){relayOps(l.AB(), ops[0], out.Faults), relayOps(l.BA(), ops[1], out.Faults)}
	sa, sb, ea, eb := w.handshake(l)
	if ea != nil || eb != nil || sa == nil || sb == nil {
		w.viol("handshake-failed", "untampered", "the handshake failed although no handshake unit was touched: %v / %v", ea, eb)
		return
	}
	conf := viper.New()
	conf.Set("send_rate", 5120000)
	conf.Set("recv_rate", 5120000)
	conf.Set("connection_reset_wait", 300)
	chIDs := []byte{0x20, 0x21, 0x22}
	descs := func() []*p2p.ChannelDescriptor {
		var ds []*p2p.ChannelDescriptor
		for i, id := range chIDs {
			ds = append(ds, &p2p.ChannelDescriptor{ID: id, Priority: 1 + i*4, SendQueueCapacity: 100, RecvMessageCapacity: w.cfg.RecvCap})
		}
		return ds
	}
	type rec struct {
		ch  byte
		msg []byte
	}
	var mu sync.Mutex
	var recvd [2][]rec
	var errs [2][]string
	mk := func(side int, conn *p2p.SecretConnection) *p2p.MConnection {
		return p2p.NewMConnection(conf, conn, descs(), func(ch byte, b []byte) {
			mu.Lock()
			recvd[side] = append(recvd[side], rec{ch, append([]byte{}, b...)}) // reactors decode inside the callback; keep a copy
			mu.Unlock()
		}, func(r interface{}) {
			mu.Lock()
			errs[side] = append(errs[side], fmt.Sprint(r))
			mu.Unlock()
		})
	}
	var ma, mb *p2p.MConnection
	w.goOwned("mconn-start", func() {
		ma, mb = mk(0, sa), mk(1, sb)
		ma.Start()
		mb.Start()
	})
	synctest.Wait()
	mcs := [2]*p2p.MConnection{ma, mb}
	// expected sequences per receiving side and channel
	var want [2]map[byte][][]byte
	want[0], want[1] = map[byte][][]byte{}, map[byte][][]byte{}
	oversizeSent := [2]bool{}
	var senders sync.WaitGroup
	for side := 0; side < 2; side++ {
		side := side
		var mine []simrt.Action
		for _, a := range acts {
			if a.K == "m" && a.N&1 == side {
				mine = append(mine, a)
			}
		}
		for i, a := range mine {
			payload := simrt.NewRand(w.cfg.Seed*31 + uint64(side)*7 + uint64(i)).Bytes(int(a.A))
			ch := chIDs[int(a.B)%len(chIDs)]
			if a.S == "oversize" {
				oversizeSent[side] = true
				out.Faults["oversize_message"]++
			}
			want[1-side][ch] = append(want[1-side][ch], wire.BinaryBytes(payload))
		}
		senders.Add(1)
		w.goOwned("sender", func() {
			defer senders.Done()
			for i, a := range mine {
				payload := simrt.NewRand(w.cfg.Seed*31 + uint64(side)*7 + uint64(i)).Bytes(int(a.A))
				if !mcs[side].Send(chIDs[int(a.B)%len(chIDs)], payload) {
					return
				}
			}
		})
	}
	// let simulated time pass: flush throttles, send timeouts
	for i := 0; i < 400; i++ {
		synctest.Wait()
		time.Sleep(50 * time.Millisecond)
	}
	synctest.Wait()
	tampered := false
	for d := 0; d < 2; d++ {
		if f, _ := touched[d](); f >= 0 {
			tampered = true
		}
	}
	mu.Lock()
	defer mu.Unlock()
	for side := 0; side < 2; side++ {
		out.Evals["C20.messages"]++
		perCh := map[byte]int{}
		for _, r := range recvd[side] {
			k := perCh[r.ch]
			exp := want[side][r.ch]
			if k >= len(exp) {
				w.viol("message-not-sent", "extra", "side %d received a message on channel %x that was never sent (%d bytes)", side, r.ch, len(r.msg))
				break
			}
			if !bytes.Equal(exp[k], r.msg) {
				w.viol("message-altered-or-reordered", fmt.Sprintf("tampered=%v", tampered), "side %d channel %x: message %d arrived as %d bytes differing from the %d bytes sent", side, r.ch, k, len(r.msg), len(exp[k]))
				break
			}
			if len(r.msg) > w.cfg.RecvCap {
				w.viol("oversize-delivered", "cap", "side %d: a message of %d bytes was delivered, the channel's receive capacity is %d", side, len(r.msg), w.cfg.RecvCap)
			}
			perCh[r.ch]++
		}
		complete := true
		for ch, exp := range want[side] {
			if perCh[ch] != len(exp) {
				complete = false
			}
		}
		if tampered || oversizeSent[0] || oversizeSent[1] {
			// how much got through before the connection was torn down depends on the runtime's choice among
			// ready select cases inside MConnection; only the verdicts are schedule-independent
			w.lg.Add("side %d torn-down run: every received message is a sent one, in order", side)
		} else {
			w.lg.Add("side %d received %d complete=%v errors=%d", side, len(recvd[side]), complete, len(errs[side]))
		}
		if os.Getenv("VERIF_DEBUG_SEED") != "" {
			fmt.Printf("side %d received %d complete=%v errors=%v tampered=%v oversize=%v\n", side, len(recvd[side]), complete, errs[side], tampered, oversizeSent)
		}
		if !complete && !tampered && !oversizeSent[0] && !oversizeSent[1] {
			w.viol("messages-missing", "untampered", "side %d did not receive every message although nothing was touched and nothing exceeded the capacity (errors: %v)", side, errs[side])
		}
	}
	w.goOwned("mconn-stop", func() {
		ma.Stop()
		mb.Stop()
	})
	synctest.Wait()
	l.A.Close()
	l.B.Close()
	synctest.Wait()
	_ = io.EOF
}

func TestWorker(t *testing.T) {
	simrt.WorkerMain(t, simrt.Engine{Name: "p2psim", Generate: generate, Execute: execute})
}

func TestDebug(t *testing.T) {
	s := os.Getenv("VERIF_DEBUG_SEED")
	if s == "" {
		t.Skip()
	}
	var seed uint64
	fmt.Sscan(s, &seed)
	c := generate(seed, "C20")
	fmt.Println(string(c.Config))
	for i, a := range c.Actions {
		fmt.Println(i, a.String())
	}
	out := execute(t, "C20", c)
	for _, v := range out.Violations {
		fmt.Printf("VIOLATION %+v\n", v)
	}
}

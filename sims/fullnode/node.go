// Package fullnode assembles a complete AnnChain node for simulation: the real
// Angine (state, block store, reactors, pbft consensus state, admin plugin),
// the real EVM application (state processor, VM, state DB, trie, transaction
// pool) - over simulated disks, without sockets, inside a synctest bubble.
package fullnode

import (
	"fmt"
	"os"
	"path/filepath"
	"strings"
	"sync"

	"github.com/spf13/viper"
	"go.uber.org/zap"

	"github.com/dappledger/AnnChain/chain/app/evm"
	"github.com/dappledger/AnnChain/eth/core/vm"
	"github.com/dappledger/AnnChain/gemmill"
	bc "github.com/dappledger/AnnChain/gemmill/blockchain"
	"github.com/dappledger/AnnChain/gemmill/consensus/pbft"
	crypto "github.com/dappledger/AnnChain/gemmill/go-crypto"
	dbm "github.com/dappledger/AnnChain/gemmill/modules/go-db"
	glog "github.com/dappledger/AnnChain/gemmill/modules/go-log"
	"github.com/dappledger/AnnChain/gemmill/p2p"
	sm "github.com/dappledger/AnnChain/gemmill/state"
	"github.com/dappledger/AnnChain/gemmill/types"

	"verif/simdisk"
	"verif/simrt"
)

const ChainID = "simchain"

func init() {
	if os.Getenv("VERIF_NODELOG") != "" {
		l, _ := zap.NewDevelopment()
		glog.SetLog(l)
	} else {
		glog.SetLog(zap.NewNop())
	}
	glog.SetAuditLog(zap.NewNop())
	crypto.NodeInit(crypto.CryptoType)
	dbm.RegisterBackendVerif("simdb", simdbCreator)
	vm.DefaultAdminContract.SetCallback(adminDispatch)
}

// ---------------------------------------------------------------------------
// the simulated database backend: directories are bound to (disk, life) pairs

type binding struct {
	disk *simdisk.Disk
	life *simdisk.Life
}

var (
	bindMu   sync.Mutex
	bindings = map[string]*binding{}
)

func bind(dir string, disk *simdisk.Disk, life *simdisk.Life) {
	bindMu.Lock()
	bindings[filepath.Clean(dir)] = &binding{disk, life}
	bindMu.Unlock()
}

func simdbCreator(name, dir string) (dbm.DB, error) {
	bindMu.Lock()
	b := bindings[filepath.Clean(dir)]
	bindMu.Unlock()
	if b == nil {
		return nil, fmt.Errorf("simdb: directory %s is not bound to a simulated disk", dir)
	}
	return simdisk.NewDB(b.disk.Store(filepath.Base(dir)+"/"+name), b.life), nil
}

// ---------------------------------------------------------------------------

// Env is what the embedding simulator provides.
type Env struct {
	Reg     *simrt.Registry
	Genesis *types.GenesisDoc
	// per-run knobs
	BlockPartSize int
	BlockSize     int
	AuthByCA      bool // certificate-authority admission of peers (C20)
	RealTicker    bool // leave the production timeout ticker in place (timeouts fire on the simulated clock by themselves)
	Timeouts      [7]int // propose, proposeDelta, prevote, prevoteDelta, precommit, precommitDelta, commit
	Plugins       string
}

// Node is one node identity (key, disk, directory) across incarnations.
type Node struct {
	ID   int
	Key  crypto.PrivKeyEd25519
	Dir  string
	Disk *simdisk.Disk
	Gens int
	Inc  *Inc
	// FastSync: the node starts in block-sync mode (C13)
	FastSync bool
}

// Inc is one process lifetime.
type Inc struct {
	Node   *Node
	Gen    int
	Life   *simdisk.Life
	App    *evm.EVMApp
	Ang    *gemmill.Angine
	Store  *bc.BlockStore
	State  *sm.State
	Evsw   types.EventSwitch
	Pool   types.TxPool
	CS     *pbft.ConsensusState
	ConR   *pbft.ConsensusReactor
	Sw     *p2p.Switch
	Ticker *pbft.VerifTicker

	Started   bool
	PanicSite string
	PanicVal  string
	PanicStk  string
	Exited    string
}

type ExitPanic struct{ S string }

func (e ExitPanic) String() string { return "gcmn.Exit: " + e.S }

func (inc *Inc) OnPanic(site string, val interface{}, stack []byte) {
	if _, ok := val.(simdisk.CrashPanic); ok {
		return
	}
	if inc.Life.Dead() {
		return
	}
	if e, ok := val.(ExitPanic); ok {
		inc.Exited = e.String()
	} else if inc.PanicSite == "" {
		inc.PanicSite, inc.PanicVal, inc.PanicStk = site, fmt.Sprint(val), string(stack)
	}
	inc.Life.Kill("panic: " + fmt.Sprint(val))
}

func (inc *Inc) Alive() bool { return inc != nil && inc.Started && !inc.Life.Dead() }

func NewNode(id int, key crypto.PrivKeyEd25519, baseDir string) *Node {
	nd := &Node{ID: id, Key: key, Dir: filepath.Join(baseDir, fmt.Sprintf("n%d", id)), Disk: simdisk.NewDisk()}
	os.MkdirAll(nd.Dir, 0700)
	return nd
}

func (nd *Node) conf(env *Env) *viper.Viper {
	c := viper.New()
	c.Set("runtime", nd.Dir)
	c.Set("chain_id", ChainID)
	c.Set("db_backend", "simdb")
	c.Set("db_dir", filepath.Join(nd.Dir, "data"))
	c.Set("db_archive_dir", filepath.Join(nd.Dir, "data.archive"))
	c.Set("genesis_file", filepath.Join(nd.Dir, "genesis.json"))
	c.Set("priv_validator_file", filepath.Join(nd.Dir, "priv_validator.json"))
	c.Set("cs_wal_dir", filepath.Join(nd.Dir, "cs.wal"))
	c.Set("cs_wal_light", false)
	bs := env.BlockSize
	if bs == 0 {
		bs = 50
	}
	c.Set("block_size", bs)
	ps := env.BlockPartSize
	if ps == 0 {
		ps = 65536
	}
	c.Set("block_part_size", ps)
	t := env.Timeouts
	if t[0] == 0 {
		t = [7]int{300, 50, 100, 50, 100, 50, 100}
	}
	c.Set("timeout_propose", t[0])
	c.Set("timeout_propose_delta", t[1])
	c.Set("timeout_prevote", t[2])
	c.Set("timeout_prevote_delta", t[3])
	c.Set("timeout_precommit", t[4])
	c.Set("timeout_precommit_delta", t[5])
	c.Set("timeout_commit", t[6])
	c.Set("skip_timeout_commit", false)
	c.Set("mempool_wal_dir", "")
	c.Set("mempool_recheck", false)
	c.Set("mempool_enable_txs_limits", false)
	c.Set("mempool_broadcast", env.RealTicker)
	c.Set("pex_reactor", false)
	c.Set("auth_by_ca", env.AuthByCA)
	c.Set("non_validator_node_auth", false)
	c.Set("fast_sync", nd.FastSync)
	c.Set("moniker", fmt.Sprintf("n%d", nd.ID))
	c.Set("p2p_laddr", "tcp://127.0.0.1:1")
	c.Set("threshold_blocks", 0)
	c.Set("seeds", "")
	c.Set("consensus", "pbft")
	c.Set("signbyCA", "")
	return c
}

// Build constructs a new incarnation in the production order (NewEVMApp,
// NewAngine, ConnectApp incl. RecoverFromCrash, SetCore, app.Start) but does
// not start the reactors. It must run on a goroutine owned by the returned
// incarnation (the caller uses reg.GoAs), so the Inc is allocated first.
func (nd *Node) NewInc() *Inc {
	nd.Gens++
	inc := &Inc{Node: nd, Gen: nd.Gens}
	inc.Life = simdisk.NewLife(fmt.Sprintf("n%d.%d", nd.ID, nd.Gens), nil)
	nd.Inc = inc
	return inc
}

func (inc *Inc) Build(env *Env) {
	nd := inc.Node
	conf := nd.conf(env)
	bind(conf.GetString("db_dir"), nd.Disk, inc.Life)
	bind(conf.GetString("db_archive_dir"), nd.Disk, inc.Life)
	// first start: genesis and signer files
	gf := conf.GetString("genesis_file")
	if _, err := os.Stat(gf); err != nil {
		g := *env.Genesis
		g.Plugins = env.Plugins
		if err := g.SaveAs(gf); err != nil {
			panic(err)
		}
	}
	pvf := conf.GetString("priv_validator_file")
	if _, err := os.Stat(pvf); err != nil {
		pv, _ := types.GenPrivValidator(crypto.CryptoType, nd.Key)
		pv.SetFile(pvf)
		pv.Save()
	}
	app := evm.NewEVMAppVerif(conf,
		simdisk.NewDB(nd.Disk.Store("app/base"), inc.Life),
		simdisk.NewEthDB(nd.Disk.Store("app/chaindata"), inc.Life),
		simdisk.NewEthDB(nd.Disk.Store("app/kv_update_history"), inc.Life))
	inc.App = app
	ang, err := gemmill.NewAngineVerif(app, conf)
	if err != nil {
		panic(fmt.Sprintf("NewAngine: %v", err))
	}
	inc.Ang = ang
	ang.ConnectApp(app)
	app.SetCore(ang)
	store, st, evsw, pool, eng, sw := ang.VerifParts()
	inc.Store, inc.State, inc.Evsw, inc.Pool, inc.Sw = store, st, evsw, pool, sw
	inc.CS = eng.(*pbft.ConsensusState)
	if r := sw.Reactor("CONSENSUS"); r != nil {
		inc.ConR = r.(*pbft.ConsensusReactor)
	}
	if !env.RealTicker {
		inc.Ticker = pbft.NewVerifTicker()
		inc.CS.SetTimeoutTicker(inc.Ticker)
	}
	if err := app.Start(); err != nil {
		panic(fmt.Sprintf("app.Start: %v", err))
	}
}

// StartReactors starts the event switch and the reactors (consensus begins).
func (inc *Inc) StartReactors() {
	if err := inc.Ang.Start(); err != nil {
		panic(fmt.Sprintf("Angine.Start: %v", err))
	}
	inc.Started = true
}

// StartEvents starts only the event switch: the node executes blocks handed to
// it (the fast-sync executor path) but runs no consensus.
func (inc *Inc) StartEvents() {
	inc.Evsw.Start()
	inc.Started = true
}

// Quiesce stops the timers of a dead incarnation.
func (inc *Inc) Quiesce() {
	if inc.Ticker != nil {
		inc.Ticker.Stop()
	}
	if inc.CS != nil {
		inc.CS.VerifStopWALTickers()
	}
}

// ---------------------------------------------------------------------------
// vm.DefaultAdminContract is a process-wide singleton with one callback: route
// it to the node that is executing (the goroutine's owner).

var AdminReg *simrt.Registry

func adminDispatch(app *vm.AdminDBApp, tx []byte) error {
	if AdminReg == nil {
		return fmt.Errorf("no registry")
	}
	inc, _ := AdminReg.Current().(*Inc)
	if inc == nil || inc.Ang == nil {
		return fmt.Errorf("admin op outside a node")
	}
	return inc.Ang.ExecAdminTx(app, tx)
}

func PanicKey(val, stack string) string {
	lines := strings.Split(stack, "\n")
	for _, l := range lines {
		if strings.Contains(l, "AnnChain/") && !strings.Contains(l, "simhook") && !strings.Contains(l, "go-common.Panic") && !strings.Contains(l, "go-common.panicLog") {
			fn := strings.TrimSpace(l)
			if !strings.HasPrefix(fn, "github.com") {
				continue
			}
			if j := strings.LastIndex(fn, "/"); j >= 0 {
				fn = fn[j+1:]
			}
			if k := strings.LastIndex(fn, "("); k > 0 {
				fn = fn[:k]
			}
			return fn
		}
	}
	if len(val) > 60 {
		val = val[:60]
	}
	return val
}

// Package partsim: sender -> adversarial network -> receiver for block part
// sets (real types.PartSet, real go-merkle proofs). The network reorders,
// duplicates and mutates parts; the receiver knows only the part-set header.
// Property C17.
package partsim

import (
	"bytes"
	"encoding/json"
	"fmt"
	"io/ioutil"
	"testing"

	merkle "github.com/dappledger/AnnChain/gemmill/modules/go-merkle"
	"github.com/dappledger/AnnChain/gemmill/types"

	"verif/simrt"
)

type config struct {
	Seed     uint64 `json:"seed"`
	DataLen  int    `json:"data_len"`
	PartSize int    `json:"part_size"`
	Items    int    `json:"merkle_items"`
}

func generate(seed uint64, prop string) simrt.Case {
	r := simrt.NewRand(seed)
	cfg := config{Seed: seed}
	cfg.PartSize = []int{1, 2, 3, 7, 16, 64, 256, 4096}[r.Intn(8)]
	switch r.Intn(5) {
	case 0:
		cfg.DataLen = cfg.PartSize * (1 + r.Intn(6)) // exact multiple
	case 1:
		cfg.DataLen = cfg.PartSize*(1+r.Intn(6)) + 1 // off by one
	case 2:
		cfg.DataLen = cfg.PartSize*(1+r.Intn(6)) - 1
		if cfg.DataLen < 1 {
			cfg.DataLen = 1
		}
	case 3:
		cfg.DataLen = 1 + r.Intn(40)
	default:
		cfg.DataLen = 1 + r.Intn(5000)
	}
	if cfg.DataLen/cfg.PartSize > 300 {
		cfg.PartSize = cfg.DataLen/300 + 1
	}
	cfg.Items = r.Intn(20)
	total := (cfg.DataLen + cfg.PartSize - 1) / cfg.PartSize
	var acts []simrt.Action
	// arrival: permutation with duplicates; a share of the copies is mutated first
	n := total + r.Intn(total+3)
	perm := r.Perm(total)
	for i := 0; i < n; i++ {
		idx := perm[i%total]
		if i >= total {
			idx = r.Intn(total)
		}
		mut := ""
		if r.Chance(2, 5) {
			mut = []string{"bytes", "index-neg", "index-total", "index-total+1", "index-other", "aunt-flip", "aunt-extra", "aunt-missing", "proof-of-other", "bytes-empty", "index-min"}[r.Intn(11)]
		}
		acts = append(acts, simrt.Action{K: "part", N: idx, S: mut, A: int64(r.Intn(1 << 16))})
	}
	// after the noise, deliver every genuine part once more so the set can complete
	for _, idx := range r.Perm(total) {
		acts = append(acts, simrt.Action{K: "part", N: idx})
	}
	for i := 0; i < 4 && cfg.Items > 0; i++ {
		acts = append(acts, simrt.Action{K: "proof", N: r.Intn(cfg.Items), S: []string{"", "leaf", "index", "total", "index-neg", "aunt"}[r.Intn(6)], A: int64(r.Intn(1 << 16))})
	}
	b, _ := json.Marshal(cfg)
	return simrt.Case{Config: b, Actions: acts}
}

type leaf []byte

func (l leaf) Hash() []byte { return merkle.SimpleHashFromBinary([]byte(l)) }

func setDigest(ps *types.PartSet) string {
	return fmt.Sprintf("%d/%d/%s", ps.Count(), ps.Total(), ps.BitArray().String())
}

func execute(t *testing.T, prop string, c simrt.Case) (out simrt.Outcome) {
	var cfg config
	json.Unmarshal(c.Config, &cfg)
	out = simrt.Outcome{Faults: map[string]int{}, Probes: map[string]int{}, Evals: map[string]int{}}
	var lg simrt.Log
	defer func() { out.LogHash = lg.Hash() }()
	viol := func(oracle, key, f string, a ...interface{}) {
		for _, v := range out.Violations {
			if v.Oracle == oracle && v.Key == key {
				return
			}
		}
		out.Violations = append(out.Violations, simrt.Violation{Property: "C17", Oracle: oracle, Key: key, Msg: fmt.Sprintf(f, a...), Step: out.Steps})
	}
	r := simrt.NewRand(cfg.Seed ^ 0x55)
	data := r.Bytes(cfg.DataLen)
	sender := types.NewPartSetFromData(data, cfg.PartSize)
	recv := types.NewPartSetFromHeader(sender.Header())
	total := sender.Total()
	// deterministic roots
	if again := types.NewPartSetFromData(data, cfg.PartSize); !bytes.Equal(again.Hash(), sender.Hash()) {
		viol("root-not-deterministic", "root", "two part sets of the same data have different roots")
	}
	// merkle items
	items := make([]merkle.Hashable, cfg.Items)
	for i := range items {
		items[i] = leaf(r.Bytes(1 + r.Intn(40)))
	}
	var root []byte
	var proofs []*merkle.SimpleProof
	if cfg.Items > 0 {
		root, proofs = merkle.SimpleProofsFromHashables(items)
		for i, p := range proofs {
			out.Evals["C17.proof-verifies"]++
			if !p.Verify(i, cfg.Items, items[i].Hash(), root) {
				viol("genuine-proof-rejected", "proof", "generated inclusion proof %d of %d does not verify", i, cfg.Items)
			}
		}
	}
	for _, a := range c.Actions {
		out.Steps++
		switch a.K {
		case "part":
			if a.N < 0 || a.N >= total {
				continue
			}
			orig := sender.GetPart(a.N)
			p := &types.Part{Index: orig.Index, Bytes: append([]byte{}, orig.Bytes...), Proof: merkle.SimpleProof{Aunts: append([][]byte{}, orig.Proof.Aunts...)}}
			genuine := true
			switch a.S {
			case "":
			case "bytes":
				if len(p.Bytes) > 0 {
					p.Bytes[int(a.A)%len(p.Bytes)] ^= 1 << uint(a.A%8)
					genuine = false
				}
			case "bytes-empty":
				if len(p.Bytes) > 0 {
					p.Bytes = nil
					genuine = false
				}
			case "index-neg":
				p.Index, genuine = -1-int(a.A%3), false
			case "index-min":
				p.Index, genuine = -1<<62, false
			case "index-total":
				p.Index, genuine = total, false
			case "index-total+1":
				p.Index, genuine = total+1+int(a.A%5), false
			case "index-other":
				if total > 1 {
					p.Index, genuine = (orig.Index+1+int(a.A)%(total-1))%total, false
				}
			case "aunt-flip":
				if len(p.Proof.Aunts) > 0 {
					i := int(a.A) % len(p.Proof.Aunts)
					x := append([]byte{}, p.Proof.Aunts[i]...)
					x[0] ^= 0x80
					p.Proof.Aunts[i] = x
					genuine = false
				}
			case "aunt-extra":
				p.Proof.Aunts = append(p.Proof.Aunts, bytes.Repeat([]byte{7}, 20))
				genuine = false
			case "aunt-missing":
				if len(p.Proof.Aunts) > 0 {
					p.Proof.Aunts = p.Proof.Aunts[:len(p.Proof.Aunts)-1]
					genuine = false
				}
			case "proof-of-other":
				if total > 1 {
					o := sender.GetPart((orig.Index + 1) % total)
					p.Proof = o.Proof
					genuine = !differs(o.Proof.Aunts, orig.Proof.Aunts)
				}
			}
			// what counts is what arrives: a copy that ends up byte- and proof-identical to the
			// sender's part at the claimed index (equal neighbouring parts) is that genuine part
			if p.Index >= 0 && p.Index < total {
				g := sender.GetPart(p.Index)
				genuine = bytes.Equal(g.Bytes, p.Bytes) && !differs(g.Proof.Aunts, p.Proof.Aunts)
			} else {
				genuine = false
			}
			if !genuine {
				out.Faults["mutated_part:"+a.S]++
			}
			before := setDigest(recv)
			had := p.Index >= 0 && p.Index < total && recv.GetPart(p.Index) != nil
			var added bool
			var err error
			panicked := func() (pv interface{}) {
				defer func() { pv = recover() }()
				added, err = recv.AddPart(p, true)
				return nil
			}()
			out.Evals["C17.addpart"]++
			lg.Add("part %d mut=%s added=%v err=%v", a.N, a.S, added, err)
			if panicked != nil {
				viol("addpart-panics", a.S, "AddPart panicked on a part with mutation %q (index %d of %d): %v", a.S, p.Index, total, panicked)
				continue
			}
			switch {
			case !genuine && added:
				viol("forged-part-accepted", a.S, "a part with mutation %q (index %d of %d) was accepted", a.S, p.Index, total)
			case genuine && !had && !added:
				viol("genuine-part-rejected", "genuine", "the genuine part %d of %d was rejected: %v", p.Index, total, err)
			case genuine && had && added:
				viol("duplicate-accepted", "dup", "part %d was added twice", p.Index)
			}
			if !added && before != setDigest(recv) {
				viol("set-corrupted", a.S, "a rejected part (mutation %q) changed the set: %s -> %s", a.S, before, setDigest(recv))
			}
		case "proof":
			if cfg.Items == 0 || a.N >= cfg.Items {
				continue
			}
			i := a.N
			lh := items[i].Hash()
			idx, tot := i, cfg.Items
			p := proofs[i]
			switch a.S {
			case "":
			case "leaf":
				lh = append([]byte{}, lh...)
				lh[0] ^= 1
			case "index":
				if cfg.Items > 1 {
					idx = (i + 1 + int(a.A)%(cfg.Items-1)) % cfg.Items
					if sameProof(proofs[idx], p) && bytes.Equal(items[idx].Hash(), lh) {
						continue
					}
				} else {
					idx = 1
				}
			case "index-neg":
				idx = -1 - int(a.A%4)
			case "total":
				tot = cfg.Items + 1 + int(a.A%3)
			case "aunt":
				if len(p.Aunts) == 0 {
					continue
				}
				q := &merkle.SimpleProof{Aunts: append([][]byte{}, p.Aunts...)}
				x := append([]byte{}, q.Aunts[0]...)
				x[len(x)-1] ^= 1
				q.Aunts[0] = x
				p = q
			}
			var ok bool
			pv := func() (pv interface{}) {
				defer func() { pv = recover() }()
				ok = p.Verify(idx, tot, lh, root)
				return nil
			}()
			out.Evals["C17.proof-mutation"]++
			if pv != nil {
				viol("verify-panics", a.S, "SimpleProof.Verify panicked (mutation %q index %d total %d): %v", a.S, idx, tot, pv)
			} else if a.S == "" && !ok {
				viol("genuine-proof-rejected", "proof", "proof %d of %d does not verify", i, cfg.Items)
			} else if a.S != "" && ok && !(a.S == "total" && false) {
				viol("forged-proof-verifies", a.S, "a proof verifies for a different %s (item %d of %d, claimed index %d total %d)", a.S, i, cfg.Items, idx, tot)
			}
		}
	}
	out.Evals["C17.reassembly"]++
	if !recv.IsComplete() {
		viol("incomplete", "complete", "after every genuine part was offered the set has %d of %d parts", recv.Count(), total)
	} else {
		got, _ := ioutil.ReadAll(recv.GetReader())
		if !bytes.Equal(got, data) {
			viol("reassembly-differs", "bytes", "reassembled %d bytes differ from the %d original bytes", len(got), len(data))
		}
		if !bytes.Equal(recv.Hash(), sender.Hash()) {
			viol("reassembly-differs", "hash", "hash of the reassembled set differs")
		}
	}
	nf := 0
	for _, n := range out.Faults {
		nf += n
	}
	out.Nontrivial = nf > 0
	out.Sample = map[string]interface{}{"data_len": cfg.DataLen, "part_size": cfg.PartSize, "parts": total, "deliveries": len(c.Actions), "mutations": out.Faults}
	return out
}

func differs(a, b [][]byte) bool {
	if len(a) != len(b) {
		return true
	}
	for i := range a {
		if !bytes.Equal(a[i], b[i]) {
			return true
		}
	}
	return false
}

func sameProof(a, b *merkle.SimpleProof) bool { return !differs(a.Aunts, b.Aunts) }

func TestWorker(t *testing.T) {
	simrt.WorkerMain(t, simrt.Engine{Name: "partsim", Generate: generate, Execute: execute})
}

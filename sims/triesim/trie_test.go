// Package triesim: operation histories with commit, reopen, crash-reopen and
// write failure over the in-tree Merkle-Patricia trie and StateDB, on a
// simulated disk. Oracles: a Go map, a second differently-ordered history, and
// reference go-ethereum v1.8.27 (trie and StateDB) driven in lockstep.
// Property C11.
package triesim

import (
	"bytes"
	"encoding/json"
	"fmt"
	"math/big"
	"runtime/debug"
	"sort"
	"testing"

	"github.com/dappledger/AnnChain/eth/common"
	"github.com/dappledger/AnnChain/eth/core/state"
	"github.com/dappledger/AnnChain/eth/ethdb"
	"github.com/dappledger/AnnChain/eth/trie"

	refcommon "github.com/ethereum/go-ethereum/common"
	refstate "github.com/ethereum/go-ethereum/core/state"
	refethdb "github.com/ethereum/go-ethereum/ethdb"
	reftrie "github.com/ethereum/go-ethereum/trie"

	"verif/simdisk"
	"verif/simrt"
)

type config struct {
	Seed uint64 `json:"seed"`
	Mode string `json:"mode"` // trie | statedb
}

func generate(seed uint64, prop string) simrt.Case {
	r := simrt.NewRand(seed)
	cfg := config{Seed: seed, Mode: []string{"trie", "trie", "statedb"}[r.Intn(3)]}
	var acts []simrt.Action
	n := 10 + r.Intn(60)
	for i := 0; i < n; i++ {
		if cfg.Mode == "trie" {
			switch r.Pick([]int{40, 15, 10, 5, 8, 6, 5, 4, 7}) {
			case 0:
				acts = append(acts, simrt.Action{K: "update", A: int64(r.Intn(1 << 20)), B: int64(r.Intn(101))})
			case 1:
				acts = append(acts, simrt.Action{K: "delete", A: int64(r.Intn(1 << 20))})
			case 2:
				acts = append(acts, simrt.Action{K: "get", A: int64(r.Intn(1 << 20))})
			case 3:
				acts = append(acts, simrt.Action{K: "hash"})
			case 4:
				acts = append(acts, simrt.Action{K: "commit"})
			case 5:
				acts = append(acts, simrt.Action{K: "reopen"})
			case 6:
				acts = append(acts, simrt.Action{K: "crash-reopen", A: int64(r.Intn(6))})
			case 7:
				acts = append(acts, simrt.Action{K: "write-error", A: int64(1 + r.Intn(4))})
			case 8:
				acts = append(acts, simrt.Action{K: "prove", A: int64(r.Intn(1 << 20))})
			}
		} else {
			switch r.Pick([]int{20, 25, 8, 6, 10, 10, 6, 6, 4, 5}) {
			case 0:
				acts = append(acts, simrt.Action{K: "nonce", N: r.Intn(5), A: int64(r.Intn(1000))})
			case 1:
				acts = append(acts, simrt.Action{K: "store", N: r.Intn(5), A: int64(r.Intn(6)), B: int64(r.Intn(4))})
			case 2:
				acts = append(acts, simrt.Action{K: "code", N: r.Intn(5), A: int64(r.Intn(40))})
			case 3:
				acts = append(acts, simrt.Action{K: "suicide", N: r.Intn(5)})
			case 4:
				acts = append(acts, simrt.Action{K: "snapshot"})
			case 5:
				acts = append(acts, simrt.Action{K: "revert", A: int64(r.Intn(4))})
			case 6:
				acts = append(acts, simrt.Action{K: "root"})
			case 7:
				acts = append(acts, simrt.Action{K: "commit"})
			case 8:
				acts = append(acts, simrt.Action{K: "reopen"})
			case 9:
				acts = append(acts, simrt.Action{K: "balance", N: r.Intn(5), A: int64(r.Intn(1000))})
			}
		}
	}
	b, _ := json.Marshal(cfg)
	return simrt.Case{Config: b, Actions: acts}
}

// keys with shared prefixes of every length: few distinct byte values, lengths 1..32
func mkKey(sel int64) []byte {
	r := simrt.NewRand(uint64(sel)%97 + 1) // ~97 distinct keys so that updates, deletes and gets collide
	n := 1 + r.Intn(32)
	alphabet := []byte{0x00, 0x01, 0x10, 0x11, 0xff, 0xf0}
	k := make([]byte, n)
	for i := range k {
		k[i] = alphabet[r.Intn(len(alphabet))]
	}
	return k
}

func mkVal(sel, n int64) []byte {
	if n == 0 {
		n = 1
	}
	r := simrt.NewRand(uint64(sel) + 7)
	return r.Bytes(int(n))
}

type crashed struct{}

func execute(t *testing.T, prop string, c simrt.Case) (out simrt.Outcome) {
	var cfg config
	json.Unmarshal(c.Config, &cfg)
	out = simrt.Outcome{Faults: map[string]int{}, Probes: map[string]int{}, Evals: map[string]int{}}
	var lg simrt.Log
	defer func() { out.LogHash = lg.Hash() }()
	viol := func(oracle, key, f string, a ...interface{}) {
		for _, v := range out.Violations {
			if v.Oracle == oracle && v.Key == key {
				return
			}
		}
		out.Violations = append(out.Violations, simrt.Violation{Property: "C11", Oracle: oracle, Key: key, Msg: fmt.Sprintf(f, a...), Step: out.Steps})
	}
	defer func() {
		if r := recover(); r != nil {
			if _, ok := r.(simdisk.CrashPanic); ok {
				return
			}
			viol("panic", "panic", "operation panicked: %v\n%s", r, debug.Stack())
		}
	}()
	if cfg.Mode == "trie" {
		runTrie(c, &out, &lg, viol)
	} else {
		runState(c, &out, &lg, viol)
	}
	nf := 0
	for _, n := range out.Faults {
		nf += n
	}
	out.Nontrivial = nf > 0
	out.Sample = map[string]interface{}{"mode": cfg.Mode, "ops": len(c.Actions), "faults": out.Faults}
	return out
}

func refRoot(m map[string][]byte) refcommon.Hash {
	tr, _ := reftrie.New(refcommon.Hash{}, reftrie.NewDatabase(refethdb.NewMemDatabase()))
	keys := make([]string, 0, len(m))
	for k := range m {
		keys = append(keys, k)
	}
	sort.Strings(keys)
	for _, k := range keys {
		tr.Update([]byte(k), m[k])
	}
	return tr.Hash()
}

func runTrie(c simrt.Case, out *simrt.Outcome, lg *simrt.Log, viol func(string, string, string, ...interface{})) {
	store := simdisk.NewStore("trie")
	life := simdisk.NewLife("trie", nil)
	disk := simdisk.NewEthDB(store, life)
	tdb := trie.NewDatabase(disk)
	tr, _ := trie.New(common.Hash{}, tdb)
	model := map[string][]byte{}     // current content
	committed := map[string][]byte{} // content at the last successful commit
	var committedRoot common.Hash
	copyMap := func(m map[string][]byte) map[string][]byte {
		n := make(map[string][]byte, len(m))
		for k, v := range m {
			n[k] = v
		}
		return n
	}
	checkAll := func(when string) {
		out.Evals["C11.content"]++
		for k, v := range model {
			if got := tr.Get([]byte(k)); !bytes.Equal(got, v) {
				viol("content-mismatch", when, "%s: key %x holds %x, the model %x", when, k, got, v)
				return
			}
		}
	}
	reopen := func(when string) bool {
		ntdb := trie.NewDatabase(disk)
		ntr, err := trie.New(committedRoot, ntdb)
		if err != nil {
			viol("reopen-failed", when, "%s: the trie cannot be opened at its last committed root %x: %v", when, committedRoot[:4], err)
			return false
		}
		tdb, tr = ntdb, ntr
		model = copyMap(committed)
		checkAll(when)
		// nothing but the committed content: every key ever used and not in the model must be absent
		return true
	}
	for _, a := range c.Actions {
		out.Steps++
		switch a.K {
		case "update":
			k, v := mkKey(a.A), mkVal(a.A+a.B, a.B)
			if a.B == 0 {
				v = nil // geth semantics: empty value deletes
			}
			tr.Update(k, v)
			if len(v) == 0 {
				delete(model, string(k))
			} else {
				model[string(k)] = v
			}
			lg.Add("update %x %d", k, len(v))
		case "delete":
			k := mkKey(a.A)
			tr.Delete(k)
			delete(model, string(k))
			lg.Add("delete %x", k)
		case "get":
			k := mkKey(a.A)
			out.Evals["C11.get"]++
			if got := tr.Get(k); !bytes.Equal(got, model[string(k)]) {
				viol("get-mismatch", "get", "Get(%x) = %x, the model holds %x", k, got, model[string(k)])
			}
		case "hash":
			out.Evals["C11.root"]++
			h := tr.Hash()
			if rr := refRoot(model); !bytes.Equal(h[:], rr[:]) {
				viol("root-differs-from-reference", "hash", "root %x, reference go-ethereum computes %x for the same %d entries", h[:4], rr[:4], len(model))
			}
			// history independence: the same content inserted in another order
			out.Evals["C11.history-independence"]++
			tr2, _ := trie.New(common.Hash{}, trie.NewDatabase(ethdb.NewMemDatabase()))
			keys := make([]string, 0, len(model))
			for k := range model {
				keys = append(keys, k)
			}
			sort.Sort(sort.Reverse(sort.StringSlice(keys)))
			for _, k := range keys {
				tr2.Update([]byte(k), []byte("x"))
			}
			for _, k := range keys {
				tr2.Update([]byte(k), model[k])
			}
			if h2 := tr2.Hash(); h2 != h {
				viol("root-depends-on-history", "hash", "two histories ending in the same %d entries give roots %x and %x", len(model), h[:4], h2[:4])
			}
			lg.Add("hash %x", h[:4])
		case "commit":
			root, err := tr.Commit(nil)
			if err == nil {
				err = tdb.Commit(root, false)
			}
			out.Evals["C11.commit"]++
			if err != nil {
				viol("commit-failed", "commit", "commit without injected fault failed: %v", err)
				continue
			}
			committed, committedRoot = copyMap(model), root
			if rr := refRoot(model); !bytes.Equal(root[:], rr[:]) {
				viol("root-differs-from-reference", "commit", "committed root %x, reference %x", root[:4], rr[:4])
			}
			lg.Add("commit %x", root[:4])
		case "reopen":
			out.Faults["reopen"]++
			reopen("clean reopen")
		case "crash-reopen":
			// die inside TrieDB.Commit before its a.A-th batch write (0: before Commit), then reopen
			out.Faults["crash_reopen"]++
			root, err := tr.Commit(nil)
			if err == nil && a.A > 0 {
				life.ArmCrash(int(a.A))
				func() {
					defer func() {
						if r := recover(); r != nil {
							if _, ok := r.(simdisk.CrashPanic); !ok {
								panic(r)
							}
							out.Faults["crash_inside_commit"]++
						}
					}()
					if e := tdb.Commit(root, false); e == nil {
						// commit finished before the crash point was reached: it counts
						committed, committedRoot = copyMap(model), root
					}
				}()
			}
			life = simdisk.NewLife("trie", nil)
			disk = simdisk.NewEthDB(store, life)
			reopen("reopen after a crash")
		case "write-error":
			out.Faults["write_error"]++
			root, err := tr.Commit(nil)
			if err != nil {
				continue
			}
			life.ArmError(int(a.A), "disk full")
			err = tdb.Commit(root, false)
			life = simdisk.NewLife("trie", nil)
			disk = simdisk.NewEthDB(store, life)
			if err == nil {
				committed, committedRoot = copyMap(model), root
			} else {
				out.Faults["write_error_hit"]++
			}
			// whatever happened, the last root reported as committed must still open with its content
			reopen("reopen after a failed write")
		case "prove":
			k := mkKey(a.A)
			out.Evals["C11.proof"]++
			proof := ethdb.NewMemDatabase()
			if err := tr.Prove(k, 0, proof); err != nil {
				viol("prove-failed", "prove", "Prove(%x) failed: %v", k, err)
				continue
			}
			root := tr.Hash()
			val, _, err := trie.VerifyProof(root, k, proof)
			want := model[string(k)]
			// reference behaviour for the same content (an empty trie has no proof nodes at all,
			// and the reference verifier reports that as an error too)
			rtr, _ := reftrie.New(refcommon.Hash{}, reftrie.NewDatabase(refethdb.NewMemDatabase()))
			for mk, mv := range model {
				rtr.Update([]byte(mk), mv)
			}
			rproof := refethdb.NewMemDatabase()
			rtr.Prove(k, 0, rproof)
			rval, _, rerr := reftrie.VerifyProof(rtr.Hash(), k, rproof)
			if (err == nil) != (rerr == nil) || !bytes.Equal(val, rval) {
				viol("proof-differs-from-reference", "prove", "proof for key %x verifies to %x (err %v), reference go-ethereum gives %x (err %v)", k, val, err, rval, rerr)
			}
			if err == nil && !bytes.Equal(val, want) {
				viol("proof-mismatch", "prove", "proof for key %x verifies to %x, the stored value is %x", k, val, want)
			}
			// the proof must not verify against another root
			other := root
			other[0] ^= 1
			if v2, _, err2 := trie.VerifyProof(other, k, proof); err2 == nil && len(want) > 0 && bytes.Equal(v2, want) {
				viol("proof-verifies-against-other-root", "prove", "proof for key %x verifies against a different root", k)
			}
		}
	}
	checkAll("end of history")
}

// ---------------------------------------------------------------------------
// StateDB in lockstep with reference go-ethereum's StateDB and a map model with snapshots.

type acctModel struct {
	nonce   uint64
	balance int64
	code    []byte
	storage map[common.Hash]common.Hash
	exists  bool
}

type stateModel map[common.Address]*acctModel

func (m stateModel) clone() stateModel {
	n := stateModel{}
	for a, ac := range m {
		c := *ac
		c.storage = map[common.Hash]common.Hash{}
		for k, v := range ac.storage {
			c.storage[k] = v
		}
		n[a] = &c
	}
	return n
}

func runState(c simrt.Case, out *simrt.Outcome, lg *simrt.Log, viol func(string, string, string, ...interface{})) {
	store := simdisk.NewStore("state")
	life := simdisk.NewLife("state", nil)
	disk := simdisk.NewEthDB(store, life)
	sdb := state.NewDatabase(disk)
	st, _ := state.New(common.Hash{}, sdb)
	rdisk := refethdb.NewMemDatabase()
	rsdb := refstate.NewDatabase(rdisk)
	rst, _ := refstate.New(refcommon.Hash{}, rsdb)
	model := stateModel{}
	type snap struct {
		id, rid int
		m       stateModel
	}
	var snaps []snap
	var committedRoot common.Hash
	committed := stateModel{}
	addr := func(i int) common.Address { return common.BytesToAddress([]byte{0xa0, byte(i + 1)}) }
	raddr := func(i int) refcommon.Address { return refcommon.BytesToAddress([]byte{0xa0, byte(i + 1)}) }
	get := func(a common.Address) *acctModel {
		if model[a] == nil {
			model[a] = &acctModel{storage: map[common.Hash]common.Hash{}}
		}
		model[a].exists = true
		return model[a]
	}
	check := func(when string) {
		out.Evals["C11.state-content"]++
		for i := 0; i < 5; i++ {
			a := addr(i)
			ac := model[a]
			var wn uint64
			var wc []byte
			if ac != nil {
				wn, wc = ac.nonce, ac.code
			}
			if st.GetNonce(a) != wn {
				viol("state-mismatch", "nonce", "%s: account %d has nonce %d, the model %d", when, i, st.GetNonce(a), wn)
				return
			}
			if !bytes.Equal(st.GetCode(a), wc) {
				viol("state-mismatch", "code", "%s: account %d code differs from the model", when, i)
				return
			}
			for s := 0; s < 6; s++ {
				k := common.BigToHash(big.NewInt(int64(s)))
				var wv common.Hash
				if ac != nil {
					wv = ac.storage[k]
				}
				if got := st.GetState(a, k); got != wv {
					viol("state-mismatch", "storage", "%s: account %d slot %d holds %x, the model %x", when, i, s, got[28:], wv[28:])
					return
				}
			}
		}
	}
	for _, a := range c.Actions {
		out.Steps++
		switch a.K {
		case "nonce":
			st.SetNonce(addr(a.N), uint64(a.A))
			rst.SetNonce(raddr(a.N), uint64(a.A))
			get(addr(a.N)).nonce = uint64(a.A)
		case "balance":
			st.SetBalance(addr(a.N), big.NewInt(a.A))
			rst.SetBalance(raddr(a.N), big.NewInt(a.A))
			get(addr(a.N)).balance = a.A
		case "store":
			k := common.BigToHash(big.NewInt(a.A))
			v := common.BigToHash(big.NewInt(a.B))
			st.SetState(addr(a.N), k, v)
			rst.SetState(raddr(a.N), refcommon.BigToHash(big.NewInt(a.A)), refcommon.BigToHash(big.NewInt(a.B)))
			ac := get(addr(a.N))
			if (v == common.Hash{}) {
				delete(ac.storage, k)
			} else {
				ac.storage[k] = v
			}
		case "code":
			code := bytes.Repeat([]byte{byte(a.A)}, int(a.A))
			st.SetCode(addr(a.N), code)
			rst.SetCode(raddr(a.N), code)
			get(addr(a.N)).code = code
			if len(code) == 0 {
				get(addr(a.N)).code = nil
			}
		case "suicide":
			out.Faults["suicide"]++
			r1 := st.Suicide(addr(a.N))
			r2 := rst.Suicide(raddr(a.N))
			if r1 != r2 {
				viol("differs-from-reference", "suicide", "Suicide(account %d) returns %v, reference %v", a.N, r1, r2)
			}
			// state content of a suicided account stays readable until the state is finalised
		case "snapshot":
			id := st.Snapshot()
			rid := rst.Snapshot()
			snaps = append(snaps, snap{id, rid, model.clone()})
		case "revert":
			if len(snaps) == 0 {
				continue
			}
			out.Faults["revert"]++
			i := int(a.A) % len(snaps)
			s := snaps[i]
			st.RevertToSnapshot(s.id)
			rst.RevertToSnapshot(s.rid)
			model = s.m.clone()
			snaps = snaps[:i]
			check("after revert to snapshot")
		case "root":
			out.Evals["C11.state-root"]++
			// IntermediateRoot finalises (suicided accounts disappear): rebuild the model from the reference
			r1 := st.IntermediateRoot(true)
			r2 := rst.IntermediateRoot(true)
			if !bytes.Equal(r1[:], r2[:]) {
				viol("root-differs-from-reference", "state-root", "IntermediateRoot %x, reference go-ethereum %x", r1[:4], r2[:4])
			}
			snaps = nil
			syncModel(model, rst, raddr)
		case "commit":
			out.Evals["C11.state-commit"]++
			r1, err := st.Commit(true)
			r2, _ := rst.Commit(true)
			if err != nil {
				viol("commit-failed", "state-commit", "StateDB.Commit failed: %v", err)
				continue
			}
			if !bytes.Equal(r1[:], r2[:]) {
				viol("root-differs-from-reference", "state-commit", "committed state root %x, reference go-ethereum %x", r1[:4], r2[:4])
			}
			if err := sdb.TrieDB().Commit(r1, false); err != nil {
				viol("commit-failed", "triedb-commit", "TrieDB.Commit failed: %v", err)
				continue
			}
			rsdb.TrieDB().Commit(r2, false)
			snaps = nil
			syncModel(model, rst, raddr)
			committedRoot, committed = r1, model.clone()
			lg.Add("commit %x", r1[:4])
		case "reopen":
			out.Faults["reopen"]++
			nsdb := state.NewDatabase(disk)
			nst, err := state.New(committedRoot, nsdb)
			if err != nil {
				viol("reopen-failed", "state", "state cannot be opened at its last committed root %x: %v", committedRoot[:4], err)
				continue
			}
			sdb, st = nsdb, nst
			rsdb = refstate.NewDatabase(rdisk)
			nr, rerr := refstate.New(refcommon.BytesToHash(committedRoot[:]), rsdb)
			if rerr != nil {
				viol("harness", "reference-reopen", "reference state does not reopen at %x: %v", committedRoot[:4], rerr)
				return
			}
			rst = nr
			model = committed.clone()
			snaps = nil
			check("after reopen at the committed root")
		}
		lg.Add("%s", a.String())
	}
	check("end of history")
}

// syncModel drops accounts the reference no longer has (finalised suicides, empty accounts).
func syncModel(m stateModel, rst *refstate.StateDB, raddr func(int) refcommon.Address) {
	for i := 0; i < 5; i++ {
		a := common.BytesToAddress([]byte{0xa0, byte(i + 1)})
		if !rst.Exist(raddr(i)) {
			delete(m, a)
		}
	}
}

func TestWorker(t *testing.T) {
	simrt.WorkerMain(t, simrt.Engine{Name: "triesim", Generate: generate, Execute: execute})
}

package csim

import (
	"fmt"
	"os"
	"os/exec"
	"path/filepath"
	"sort"
	"testing/synctest"
	"time"

	"github.com/dappledger/AnnChain/gemmill/consensus/pbft"
	"github.com/dappledger/AnnChain/gemmill/types"

	"verif/simdisk"
	"verif/simrt"
)

// view is what the harness knows about a live node after the last quiescence.
type view struct {
	nd *Node
	rs *pbft.RoundState
}

func (w *World) views() []*view {
	var vs []*view
	for _, nd := range w.nodes {
		if nd == nil || !nd.inc.Alive() {
			continue
		}
		rs := w.Snapshot(nd.inc)
		if rs == nil {
			if nd.inc.Alive() {
				// alive but its state lock is not obtainable at quiescence
				w.violate("C12", "wedge-statelock", fmt.Sprintf("n%d", nd.id), "node %d holds its consensus state lock while blocked (step %d)", nd.id, w.Step)
				w.Kill(nd, "wedged")
			}
			continue
		}
		vs = append(vs, &view{nd, rs})
	}
	return vs
}

// collect exports everything live nodes hold (and their block stores) into the pool.
func (w *World) collect(vs []*view) {
	for _, v := range vs {
		rs := v.rs
		id := v.nd.id
		if rs.Proposal != nil {
			if it := w.pool.AddProposal(rs.Proposal, w.proposerID(rs), false, ""); it != nil {
				it.Held = true
			}
		}
		if rs.ProposalBlockParts != nil && rs.ProposalBlockParts.IsComplete() {
			w.pool.AddPartSet(rs.Height, rs.ProposalBlockParts, id, false)
		}
		if rs.LockedBlockParts != nil && rs.LockedBlockParts.IsComplete() {
			w.pool.AddPartSet(rs.Height, rs.LockedBlockParts, id, false)
		}
		if rs.Votes != nil {
			for r := int64(0); r <= rs.Votes.Round(); r++ {
				for _, vset := range []*types.VoteSet{rs.Votes.Prevotes(r), rs.Votes.Precommits(r)} {
					w.collectVotes(vset)
					if vset != nil {
						if m, ok := vset.TwoThirdsMajority(); ok {
							w.pool.AddClaim(rs.Height, r, vset.Type(), m, id)
						}
					}
				}
			}
		}
		w.collectVotes(rs.LastCommit)
		// committed blocks: parts and commits serve lagging peers
		sh := v.nd.inc.store.Height()
		for h := v.nd.scannedHeight + 1; h <= sh; h++ {
			meta := v.nd.inc.store.LoadBlockMeta(h)
			if meta == nil {
				break
			}
			ps := types.NewPartSetFromHeader(meta.PartsHeader)
			for i := 0; i < meta.PartsHeader.Total; i++ {
				if part := v.nd.inc.store.LoadBlockPart(h, i); part != nil {
					ps.AddPart(part, false)
				}
			}
			w.pool.AddPartSet(h, ps, -1, false)
			if c := v.nd.inc.store.LoadSeenCommit(h); c != nil {
				// what queryMaj23Routine tells a peer that is catching up on this height
				w.pool.AddClaim(h, c.Round(), types.VoteTypePrecommit, c.BlockID, id)
				for _, pc := range c.Precommits {
					if pc != nil {
						w.pool.AddVote(pc, pc.ValidatorIndex, false, "")
					}
				}
			}
			v.nd.scannedHeight = h
		}
	}
}

func (w *World) collectVotes(vset *types.VoteSet) {
	if vset == nil {
		return
	}
	for i := 0; i < vset.Size(); i++ {
		if vote := vset.GetByIndex(i); vote != nil {
			if it := w.pool.AddVote(vote, w.valIDByAddr(vote.ValidatorAddress), false, ""); it != nil {
				it.Held = true
			}
		}
	}
}

func (w *World) valIDByAddr(addr []byte) int {
	for _, v := range w.vals {
		if string(v.addr) == string(addr) {
			return v.id
		}
	}
	return -1
}

func (w *World) proposerID(rs *pbft.RoundState) int {
	if rs.Validators == nil || rs.Validators.Size() == 0 {
		return -1
	}
	return w.valIDByAddr(rs.Validators.Proposer().Address)
}

// fresh: never delivered to this incarnation, or delivered before a peer claimed a
// majority for its block (after which a conflicting vote becomes admissible).
func fresh(inc *Incarnation, it *Item) bool {
	if inc.delivered[it.ID] == 0 {
		return true
	}
	if it.Kind == kVote {
		if at, ok := inc.claims[it.ckey]; ok && inc.deliveredStep[it.ID] < at && inc.delivered[it.ID] < 3 {
			return true
		}
	}
	return false
}

func claimKey(r int64, t byte, bk string) string { return fmt.Sprintf("%d/%d/%s", r, t, bk) }

// relevant reports whether delivering it to the node in state rs can teach it something.
func (w *World) relevant(v *view, it *Item) bool {
	rs := v.rs
	switch it.Kind {
	case kClaim:
		if it.H != rs.Height || it.Signer == v.nd.id || rs.Votes == nil || it.R > rs.Votes.Round() {
			return false
		}
		var vs *types.VoteSet
		if it.Type == types.VoteTypePrevote {
			vs = rs.Votes.Prevotes(it.R)
		} else {
			vs = rs.Votes.Precommits(it.R)
		}
		if vs == nil || vs.HasTwoThirdsMajority() {
			return false
		}
		return v.nd.inc.delivered[it.ID] == 0
	case kVote:
		if it.H == rs.Height {
			if rs.Votes == nil || it.R > rs.Votes.Round()+1 {
				// far-future rounds are left to the stale/noise deliveries
				return it.R <= rs.Round+2 && fresh(v.nd.inc, it)
			}
			var vs *types.VoteSet
			if it.Type == types.VoteTypePrevote {
				vs = rs.Votes.Prevotes(it.R)
			} else {
				vs = rs.Votes.Precommits(it.R)
			}
			if vs == nil {
				return fresh(v.nd.inc, it)
			}
			idx := it.Vote.ValidatorIndex
			if idx < 0 || idx >= vs.Size() {
				return fresh(v.nd.inc, it)
			}
			have := vs.GetByIndex(idx)
			if have != nil && have.Signature != nil && it.Vote.Signature != nil && have.Signature.Equals(it.Vote.Signature) {
				return false
			}
			return fresh(v.nd.inc, it)
		}
		if it.H+1 == rs.Height && it.Type == types.VoteTypePrecommit && rs.Step == pbft.RoundStepNewHeight && rs.LastCommit != nil {
			idx := it.Vote.ValidatorIndex
			if idx < 0 || idx >= rs.LastCommit.Size() {
				return false
			}
			return rs.LastCommit.GetByIndex(idx) == nil && fresh(v.nd.inc, it)
		}
		return false
	case kProposal:
		// (the gossip routine sends the proposal to a peer that has none, whatever step that peer is in)
		return it.H == rs.Height && it.R == rs.Round && rs.Proposal == nil && v.nd.inc.delivered[it.ID] < 3
	case kPart:
		if it.H != rs.Height || rs.ProposalBlockParts == nil || !rs.ProposalBlockParts.HasHeader(it.PSH) {
			return false
		}
		if rs.ProposalBlockParts.IsComplete() {
			return false
		}
		idx := it.Part.Index
		if idx < 0 || idx >= rs.ProposalBlockParts.Total() {
			return fresh(v.nd.inc, it)
		}
		// a genuine part the node lacks is always worth sending (blocks are re-proposed in
		// later rounds); a mutated one is tried once
		return rs.ProposalBlockParts.GetPart(idx) == nil && (it.Bad == "" || v.nd.inc.delivered[it.ID] == 0)
	}
	return false
}

func (w *World) relevantItems(v *view, partitioned func(from, to int) bool, policy ...bool) []*Item {
	split := partitioned != nil && w.Cfg.Attack == "split"
	delays := len(policy) > 0 && policy[0] && w.Cfg.DelayPct > 0
	var out []*Item
	for _, h := range []int64{v.rs.Height, v.rs.Height - 1} {
		for _, it := range w.pool.byH[h] {
			if it.Kind == kRaw {
				continue
			}
			if it.Kind == kClaim && !split && partitioned != nil && partitioned(it.Signer, v.nd.id) {
				continue
			}
			if split {
				if w.splitBlocks(it, v.nd.id) {
					continue
				}
			} else if partitioned != nil && it.Signer >= 0 && partitioned(it.Signer, v.nd.id) {
				continue
			}
			if delays && w.delayedFor(it, v.nd.id) {
				continue
			}
			if len(policy) > 0 && policy[0] && w.laggardHolds(it, v) {
				continue
			}
			if w.relevant(v, it) {
				out = append(out, it)
			}
		}
	}
	return out
}

// ---------------------------------------------------------------------------
// Applying actions. Every action is applied through Apply, both when the
// policy generates it and on replay, so a run is a function of the action list.

func (w *World) Apply(a simrt.Action) bool {
	w.Step++
	ok := w.apply(a)
	if !ok {
		w.Step--
		return false
	}
	w.Actions = append(w.Actions, a)
	if a.K == "deliver" && w.pool.byID[a.I] != nil {
		w.Log.Add("%d deliver n%d <- %s", w.Step, a.N, w.pool.byID[a.I].String())
	} else {
		w.Log.Add("%d %s", w.Step, a.String())
	}
	w.afterStep()
	return true
}

func (w *World) node(n int) *Node {
	if n < 0 || n >= len(w.nodes) {
		return nil
	}
	return w.nodes[n]
}

func (w *World) apply(a simrt.Action) bool {
	switch a.K {
	case "deliver":
		nd := w.node(a.N)
		it := w.pool.byID[a.I]
		if nd == nil || it == nil || !nd.inc.Alive() {
			return false
		}
		w.Deliver(nd, it, int(a.A))
		return true
	case "tock":
		nd := w.node(a.N)
		if nd == nil || !nd.inc.Alive() {
			return false
		}
		held := nd.inc.ticker.Held()
		if len(held) == 0 {
			return false
		}
		i := int(a.A)
		if i >= len(held) {
			i = 0
		}
		if !w.call(nd.inc, "tock", func() { nd.inc.ticker.Release(i) }) {
			w.Probes.Inc("tock_release_blocked")
		}
		w.Faults.Inc("timeout_fired")
		return true
	case "advance":
		d := time.Duration(a.A) * time.Millisecond
		if d <= 0 {
			return false
		}
		time.Sleep(d)
		synctest.Wait()
		return true
	case "crash":
		nd := w.node(a.N)
		if nd == nil || !nd.inc.Alive() {
			return false
		}
		nd.crashes++
		h := int64(0)
		if nd.digLast != nil {
			h = nd.digLast.H
		}
		nd.crash = &crashInfo{prev: nd.digPrev, last: nd.digLast, armed: a.A > 0, claims: nd.claimsAt[h]}
		if a.A <= 0 {
			w.Kill(nd, "crash now")
			w.Faults.Inc("crash_now")
		} else {
			nd.inc.life.ArmCrash(int(a.A))
			w.Faults.Inc("crash_armed")
		}
		return true
	case "restart":
		nd := w.node(a.N)
		if nd == nil || nd.inc.Alive() {
			return false
		}
		if !nd.inc.life.Dead() {
			return false
		}
		w.quiesceDead(nd.inc)
		if d := os.Getenv("VERIF_WALDUMP"); d != "" {
			exec.Command("cp", "-r", filepath.Join(nd.dir, "cs.wal"), fmt.Sprintf("%s/n%d-gen%d", d, nd.id, nd.gens)).Run()
		}
		if a.A > 0 {
			cut := w.truncateWAL(nd, a.A)
			if nd.crash != nil {
				nd.crash.truncated = cut
			}
			// a torn tail legitimately loses the newest inputs: the lock monitor starts over
			if ls := w.locks[nd.id]; ls != nil {
				ls.bound = false
			}
		}
		w.Faults.Inc("restart")
		w.StartNode(nd)
		w.onRestart(nd)
		return true
	case "tx":
		nd := w.node(a.N)
		if nd == nil || !nd.inc.Alive() {
			return false
		}
		tx := types.Tx(a.S)
		w.call(nd.inc, "tx", func() { nd.inc.pool.ReceiveTx(tx) })
		return true
	case "byz":
		return w.applyByz(a)
	case "inject":
		return w.applyInject(a)
	}
	return false
}

// Deliver hands one item to the real reactor of nd as bytes from the stub peer of its signer.
func (w *World) Deliver(nd *Node, it *Item, from int) {
	inc := nd.inc
	ch, bz := it.encode()
	src := it.Signer
	if from > 0 {
		src = from - 1
	}
	peer := inc.peers[src]
	if peer == nil {
		for _, id := range sortedPeerIDs(inc) {
			peer = inc.peers[id]
			break
		}
	}
	if peer == nil { // single validator: no peers at all
		return
	}
	// only deliveries that could have taught the node something count as "had it":
	// noise deliveries at the wrong height or round must not suppress the useful one later
	count := true
	if rs := w.Snapshot(inc); rs != nil {
		count = w.relevant(&view{nd, rs}, it)
	}
	if count {
		inc.delivered[it.ID]++
		inc.deliveredStep[it.ID] = w.Step
	}
	if it.Kind == kClaim {
		inc.claims[claimKey(it.R, it.Type, it.Claim.Key())] = w.Step
		w.Probes.Inc("maj23_claim_delivered")
		nd.claimsAt[it.H]++
	}
	w.ledgerDelivered(nd, it)
	recovered := false
	ok := w.call(inc, "receive", func() {
		defer func() {
			if r := recover(); r != nil {
				if _, crash := r.(simdisk.CrashPanic); crash || inc.life.Dead() {
					panic(r)
				}
				// production: MConnection recovers, the peer is disconnected
				recovered = true
			}
		}()
		inc.conR.Receive(ch, peer, bz)
	})
	if recovered {
		w.Probes.Inc("receive_panic_recovered")
		for id, p := range inc.peers {
			if p == peer {
				w.reconnect(inc, id)
			}
		}
	}
	if !ok && inc.Alive() {
		// Receive blocks while the peer queue is full; that is back-pressure, not a wedge,
		// as long as the receive routine is alive to drain it.
		w.Probes.Inc("receive_blocked")
	}
	if it.Bad != "" {
		w.Faults.Inc("bad_msg_delivered")
	}
}

func sortedPeerIDs(inc *Incarnation) []int {
	ids := make([]int, 0, len(inc.peers))
	for id := range inc.peers {
		ids = append(ids, id)
	}
	sort.Ints(ids)
	return ids
}

func (w *World) truncateWAL(nd *Node, cut int64) int64 {
	path := filepath.Join(nd.dir, "cs.wal", "wal")
	fi, err := os.Stat(path)
	if err != nil {
		return 0
	}
	last, ok := nd.lastFileWrite[path]
	if !ok || last > fi.Size() {
		return 0
	}
	span := fi.Size() - last // bytes of the last write
	if span <= 0 {
		return 0
	}
	if cut > span {
		cut = span
	}
	os.Truncate(path, fi.Size()-cut)
	w.Faults.Inc("wal_tail_truncated")
	return cut
}

// afterStep: detect deaths, export artefacts, evaluate invariants.
func (w *World) afterStep() {
	for _, nd := range w.nodes {
		if nd == nil || nd.inc == nil {
			continue
		}
		inc := nd.inc
		if inc.life.Dead() && !inc.quiesced {
			w.quiesceDead(inc)
		}
		if inc.life.Dead() && (inc.panicSite != "" || inc.exited != "") && !w.incReported[inc] {
			w.incReported[inc] = true
			w.onNodeDeath(nd, inc)
		}
	}
	vs := w.views()
	w.collect(vs)
	for _, o := range w.oracles {
		o.AfterStep(w, vs)
	}
	for _, v := range vs {
		if w.TrackDigests {
			d := MakeDig(v.rs)
			if v.nd.digLast == nil || len(v.nd.digLast.diff(d)) > 0 {
				v.nd.digPrev, v.nd.digLast = v.nd.digLast, d
			}
		}
		w.States[abstractState(v)] = true
		w.Log.Add("n%d h%d r%d s%d", v.nd.id, v.rs.Height, v.rs.Round, v.rs.Step)
		if w.Log.Keep {
			if d := Digest(v.rs); d != v.nd.lastDigest {
				v.nd.lastDigest = d
				w.Log.Text = append(w.Log.Text, fmt.Sprintf("  n%d.%d digest %s", v.nd.id, v.nd.inc.gen, d))
			}
		}
	}
}

func abstractState(v *view) string {
	rs := v.rs
	locked, prop, pv, pc := 0, 0, 0, 0
	if rs.LockedBlock != nil {
		locked = 1
	}
	if rs.Proposal != nil {
		prop = 1
	}
	if rs.Votes != nil {
		if s := rs.Votes.Prevotes(rs.Round); s != nil {
			ba := s.BitArray()
			for i := 0; i < ba.Size(); i++ {
				if ba.GetIndex(i) {
					pv++
				}
			}
		}
	}
	_ = pc
	r := rs.Round
	if r > 3 {
		r = 3
	}
	return fmt.Sprintf("r%d s%d l%d p%d v%d", r, rs.Step, locked, prop, pv)
}

func (w *World) onNodeDeath(nd *Node, inc *Incarnation) {
	w.quiesceDead(inc)
	if inc.exited != "" {
		w.Probes.Inc("node_exit")
		w.violate("C12", "node-exit", "exit", "node %d terminated through gcmn.Exit: %s", nd.id, inc.exited)
		return
	}
	w.Probes.Inc("node_panic")
	key := panicKey(inc.panicVal, inc.panicStk)
	prop := "C12"
	if inc.untrusted > 0 {
		prop = "C08"
	}
	w.violate(prop, "node-panic", key, "node %d panicked on goroutine %s: %s", nd.id, inc.panicSite, truncStr(inc.panicVal, 300))
}

func truncStr(s string, n int) string {
	if len(s) > n {
		return s[:n]
	}
	return s
}

// delayedFor: slow links. A seeded fraction of (artefact, receiver) pairs is held back for a seeded
// number of steps after the artefact came into existence, so that votes, proposals and parts of a
// round arrive when the receiver is one or two rounds further (policy only; the fair suffix and
// replay do not consult it).
func (w *World) delayedFor(it *Item, node int) bool {
	var h uint64 = 1469598103934665603
	mix := func(b byte) { h ^= uint64(b); h *= 1099511628211 }
	for i := 0; i < len(it.ID); i++ {
		mix(it.ID[i])
	}
	mix(byte(node))
	for i := uint(0); i < 8; i++ {
		mix(byte(w.Cfg.Seed >> (8 * i)))
	}
	if int(h%100) >= w.Cfg.DelayPct {
		return false
	}
	hold := 20 + int((h/100)%uint64(w.Cfg.DelayMax))
	if w.Step < it.born+hold {
		w.Faults.Inc("delayed_link_steps")
		return true
	}
	return false
}

package csim

import (
	"bytes"
	"fmt"

	"verif/simrt"
)

// The split attack: a coordinated adversary instead of independent random
// faults. The honest validators are cut in two sides that never hear each
// other until the fair suffix; the Byzantine validators (all of them, with as
// much power as stays below one third) talk to both sides and tell each side
// what it wants to hear: as proposer they propose a different block to each
// side, and they prevote and precommit, on each side, the block that side is
// working on. With correct quorum arithmetic and locking the two sides can
// never both commit; any weakness in the +2/3 rule, in vote accounting or in
// the lock rules turns into two different committed blocks, which the
// agreement oracle reports. Only the policy knows about sides: the actions it
// emits are ordinary deliveries and Byzantine signatures, so replay and
// minimisation work on them as on any other run.

func drawSplitAttack(cfg *Config, r *simrt.Rand) {
	cfg.Attack = "split"
	cfg.Partition = false
	var total, bp int64
	for _, p := range cfg.Powers {
		total += p
	}
	// as much Byzantine power as the property allows
	for i := range cfg.Byz {
		cfg.Byz[i] = false
	}
	for _, i := range r.Perm(cfg.N) {
		if (bp+cfg.Powers[i])*3 < total {
			cfg.Byz[i] = true
			bp += cfg.Powers[i]
		}
	}
	// honest validators: balance the two sides by power
	cfg.Sides = make([]int, cfg.N)
	var pw [2]int64
	for _, i := range r.Perm(cfg.N) {
		if cfg.Byz[i] {
			cfg.Sides[i] = -1
			continue
		}
		s := 0
		if pw[1] < pw[0] || (pw[1] == pw[0] && r.Chance(1, 2)) {
			s = 1
		}
		cfg.Sides[i] = s
		pw[s] += cfg.Powers[i]
	}
	cfg.WByz = 40 + r.Intn(40)
	cfg.ValChanges = false
}

func (w *World) side(id int) int {
	if id < 0 || id >= len(w.Cfg.Sides) {
		return -1
	}
	return w.Cfg.Sides[id]
}

// splitBlocks: is this artefact kept away from node `to` while the attack lasts?
func (w *World) splitBlocks(it *Item, to int) bool {
	ts := w.side(to)
	if it.Byz {
		if s, ok := w.sideOf[it.ID]; ok && s != ts {
			return true
		}
		if it.Kind == kPart {
			if s, ok := w.sideOf[string(it.PSH.Hash)]; ok && s != ts {
				return true
			}
		}
		return false
	}
	if it.Signer >= 0 && it.Signer < len(w.vals) && !w.vals[it.Signer].byz && w.side(it.Signer) != ts {
		return true
	}
	return false
}

// splitByzAction: what the coordinated adversary signs next for the side of view v.
func (w *World) splitByzAction(v *view, id int) (simrt.Action, bool) {
	if w.Cfg.Attack != "split" {
		return simrt.Action{}, false
	}
	s := w.side(v.nd.id)
	tag := fmt.Sprintf("s%d", s)
	h, r := v.rs.Height, v.rs.Round
	if w.proposerID(v.rs) == id && v.rs.Proposal == nil {
		return simrt.Action{K: "byz", N: id, S: "propose", A: h, B: int64(r), C: int64(s), I: tag}, true
	}
	target := v.rs.ProposalBlock
	if v.rs.LockedBlock != nil && (target == nil || w.Rng.Chance(1, 2)) {
		target = v.rs.LockedBlock
	}
	if target == nil {
		return simrt.Action{}, false
	}
	hash := target.Hash()
	idx := -1
	for i, b := range w.pool.blocks[h] {
		if bytes.Equal(b.ID.Hash, hash) {
			idx = i
		}
	}
	if idx < 0 {
		return simrt.Action{}, false
	}
	kind := "prevote"
	if w.Rng.Chance(1, 2) {
		kind = "precommit"
	}
	return simrt.Action{K: "byz", N: id, S: kind, A: h, B: int64(r), C: int64(idx + 1), I: tag}, true
}

// The laggard attack: one honest validator (with less than a third of the power, so that the others
// do not need it) is kept one round behind in what it knows: in a seeded half of the rounds every vote
// of the round it is in is withheld from it until it has left that round - it moves on only by being
// pulled along by the votes of later rounds - and arrives afterwards. Polkas therefore reach it late,
// for rounds it has already left, which is where the lock and unlock rules have their corner cases.

func drawLaggard(cfg *Config, r *simrt.Rand) {
	var total int64
	for _, p := range cfg.Powers {
		total += p
	}
	var cands []int
	for i := range cfg.Powers {
		if !cfg.Byz[i] && cfg.Powers[i]*3 < total {
			cands = append(cands, i)
		}
	}
	if len(cands) == 0 {
		return
	}
	cfg.Attack = "laggard"
	cfg.Victim = cands[r.Intn(len(cands))]
	cfg.Partition = false
	if cfg.WByz < 20 {
		cfg.WByz = 20
	}
}

func (w *World) laggardHolds(it *Item, v *view) bool {
	if w.Cfg.Attack != "laggard" || v.nd.id != w.Cfg.Victim {
		return false
	}
	if it.Kind != kVote && it.Kind != kClaim {
		return false
	}
	if it.H != v.rs.Height || it.R != v.rs.Round || it.Signer == v.nd.id {
		return false
	}
	x := w.Cfg.Seed ^ uint64(it.H)*0x9e3779b97f4a7c15 ^ uint64(it.R+1)*0xc2b2ae3d27d4eb4f
	x ^= x >> 29
	if x%2 == 0 {
		return false
	}
	w.Faults.Inc("laggard_vote_withheld_steps")
	return true
}

package csim

import (
	"fmt"
	"sort"
	"strings"

	"github.com/dappledger/AnnChain/gemmill/consensus/pbft"
	"github.com/dappledger/AnnChain/gemmill/types"
)

// Dig is the structured abstract of a round state used by the C07 oracle:
// everything the property names (votes received, lock held, step reached,
// proposal and parts), nothing time dependent.
type Dig struct {
	H, R        int64
	Step        int
	CommitRound int64
	LockRound   int64
	Lock        string
	Prop        string
	Parts       string // header/bitmap
	Block       string
	Votes       map[string]string // "pv3" -> bitmap
	Maj         map[string]string // "pv3" -> block hash of the reported majority
	LastCommit  string
}

func bits(vs *types.VoteSet) string {
	if vs == nil {
		return ""
	}
	ba := vs.BitArray()
	var sb strings.Builder
	for i := 0; i < ba.Size(); i++ {
		if ba.GetIndex(i) {
			sb.WriteByte('X')
		} else {
			sb.WriteByte('_')
		}
	}
	return sb.String()
}

func MakeDig(rs *pbft.RoundState) *Dig {
	if rs == nil {
		return nil
	}
	d := &Dig{H: rs.Height, R: rs.Round, Step: int(rs.Step), CommitRound: rs.CommitRound, LockRound: rs.LockedRound, Votes: map[string]string{}, Maj: map[string]string{}}
	if rs.LockedBlock != nil {
		d.Lock = fmt.Sprintf("%X", rs.LockedBlock.Hash())
	}
	if rs.Proposal != nil {
		d.Prop = fmt.Sprintf("%d/%X/%d", rs.Proposal.Round, rs.Proposal.BlockPartsHeader.Hash, rs.Proposal.POLRound)
	}
	if rs.ProposalBlockParts != nil {
		ba := rs.ProposalBlockParts.BitArray()
		var sb strings.Builder
		for i := 0; i < ba.Size(); i++ {
			if ba.GetIndex(i) {
				sb.WriteByte('X')
			} else {
				sb.WriteByte('_')
			}
		}
		d.Parts = fmt.Sprintf("%X/%s", rs.ProposalBlockParts.Header().Hash, sb.String())
	}
	if rs.ProposalBlock != nil {
		d.Block = fmt.Sprintf("%X", rs.ProposalBlock.Hash())
	}
	if rs.Votes != nil {
		for r := int64(0); r <= rs.Votes.Round()+1; r++ {
			for _, tv := range []struct {
				n  string
				vs *types.VoteSet
			}{{"pv", rs.Votes.Prevotes(r)}, {"pc", rs.Votes.Precommits(r)}} {
				if tv.vs == nil {
					continue
				}
				k := fmt.Sprintf("%s%d", tv.n, r)
				b := bits(tv.vs)
				if strings.Contains(b, "X") {
					d.Votes[k] = b
				}
				if m, ok := tv.vs.TwoThirdsMajority(); ok {
					d.Maj[k] = fmt.Sprintf("%X", m.Hash)
				}
			}
		}
	}
	if rs.LastCommit != nil {
		d.LastCommit = fmt.Sprintf("%d/%s", rs.LastCommit.Round(), bits(rs.LastCommit))
	}
	return d
}

func (d *Dig) String() string {
	if d == nil {
		return "nil"
	}
	ks := make([]string, 0, len(d.Votes))
	for k := range d.Votes {
		ks = append(ks, k)
	}
	sort.Strings(ks)
	var sb strings.Builder
	fmt.Fprintf(&sb, "h%d r%d s%d cr%d lr%d lock:%.8s prop:%.20s parts:%.30s blk:%.8s", d.H, d.R, d.Step, d.CommitRound, d.LockRound, d.Lock, d.Prop, d.Parts, d.Block)
	for _, k := range ks {
		fmt.Fprintf(&sb, " %s:%s", k, d.Votes[k])
		if m, ok := d.Maj[k]; ok {
			fmt.Fprintf(&sb, "=%.8s", m)
		}
	}
	fmt.Fprintf(&sb, " lc:%s", d.LastCommit)
	return sb.String()
}

// diff lists the fields in which two digests differ.
func (d *Dig) diff(o *Dig) []string {
	var r []string
	add := func(n string, a, b interface{}) {
		if fmt.Sprint(a) != fmt.Sprint(b) {
			r = append(r, fmt.Sprintf("%s: %v -> %v", n, a, b))
		}
	}
	add("height", d.H, o.H)
	add("round", d.R, o.R)
	add("step", d.Step, o.Step)
	add("commit-round", d.CommitRound, o.CommitRound)
	add("lock-round", d.LockRound, o.LockRound)
	add("locked-block", d.Lock, o.Lock)
	add("proposal", d.Prop, o.Prop)
	add("parts", d.Parts, o.Parts)
	add("block", d.Block, o.Block)
	add("last-commit", d.LastCommit, o.LastCommit)
	ks := map[string]bool{}
	for k := range d.Votes {
		ks[k] = true
	}
	for k := range o.Votes {
		ks[k] = true
	}
	for _, k := range sortedKeysB(ks) {
		add("votes "+k, d.Votes[k], o.Votes[k])
		add("majority "+k, d.Maj[k], o.Maj[k])
	}
	return r
}

func subset(a, b string) bool { // every X of a is an X of b (missing = empty)
	if a == "" {
		return true
	}
	if len(a) != len(b) {
		return false
	}
	for i := range a {
		if a[i] == 'X' && b[i] != 'X' {
			return false
		}
	}
	return true
}

func hrsLE(a, b *Dig) bool {
	if a.H != b.H {
		return a.H < b.H
	}
	if a.R != b.R {
		return a.R < b.R
	}
	return a.Step <= b.Step
}

// between: lo <= x <= hi in the state machine's partial order; lock and proposal equal to one of the two.
func (x *Dig) between(lo, hi *Dig) (bool, string) {
	if !hrsLE(lo, x) || !hrsLE(x, hi) {
		return false, fmt.Sprintf("height/round/step %d/%d/%d not between %d/%d/%d and %d/%d/%d", x.H, x.R, x.Step, lo.H, lo.R, lo.Step, hi.H, hi.R, hi.Step)
	}
	ks := map[string]bool{}
	for k := range lo.Votes {
		ks[k] = true
	}
	for k := range x.Votes {
		ks[k] = true
	}
	for _, k := range sortedKeysB(ks) {
		if lo.H == x.H && !subset(lo.Votes[k], x.Votes[k]) {
			return false, fmt.Sprintf("votes %s: %s lost from %s", k, x.Votes[k], lo.Votes[k])
		}
		if x.H == hi.H && !subset(x.Votes[k], hi.Votes[k]) {
			return false, fmt.Sprintf("votes %s: %s invented beyond %s", k, x.Votes[k], hi.Votes[k])
		}
	}
	if x.Lock != lo.Lock && x.Lock != hi.Lock {
		return false, fmt.Sprintf("locked block %.8s is neither %.8s nor %.8s", x.Lock, lo.Lock, hi.Lock)
	}
	if x.Prop != lo.Prop && x.Prop != hi.Prop {
		return false, fmt.Sprintf("proposal %s is neither %s nor %s", x.Prop, lo.Prop, hi.Prop)
	}
	return true, ""
}

// walOracle implements the C07 restart check; installed through OnRestart.
func walOnRestart(w *World, nd *Node) {
	if !w.enabled("C07") {
		return
	}
	cr := nd.crash
	nd.crash = nil
	inc := nd.inc
	w.Evals.Inc("C07.restart")
	if !inc.Alive() {
		if inc.panicSite != "" || inc.exited != "" {
			key := "panic"
			if cr != nil && cr.truncated > 0 {
				key = "panic-on-torn-log"
			}
			w.violate("C07", "restart-failed", key, "node %d did not come back from its write-ahead log: %s %s", nd.id, inc.panicVal, inc.exited)
		}
		return
	}
	if cr == nil || cr.last == nil || cr.armed {
		return
	}
	rs := w.Snapshot(inc)
	if rs == nil {
		return
	}
	after := MakeDig(rs)
	if after.H != cr.last.H {
		// the crash hit between the block-store write and the state write of a commit; C06's subject
		w.Probes.Inc("C07_restart_at_other_height")
		return
	}
	suffix := ""
	if cr.claims > 0 {
		suffix = "+peer-majority-claims"
	}
	if cr.uncompensated {
		suffix += "+proposer-cache"
	}
	if w.Cfg.SkipTimeoutCommit {
		// finding F6: round 0 is entered inside the previous height's last input, so on replay
		// votes for round 1 that arrived early count as catch-up rounds and later ones are refused
		suffix += "+skip-timeout-commit"
	}
	// With skip_timeout_commit the step from NewHeight into round 0 is taken inside the
	// handling of the last precommit of the previous height, which is logged under that
	// height: the log of this height cannot reproduce the step alone (finding F6). Such a
	// restart is judged on everything but the step, and keyed apart.
	fastPath := w.Cfg.SkipTimeoutCommit && after.Step == int(pbft.RoundStepNewHeight) && after.R == 0 && cr.last.R == 0 && cr.last.Step > after.Step
	last, prev := cr.last, cr.prev
	if fastPath {
		l2 := *cr.last
		l2.Step = after.Step
		last = &l2
		if prev != nil {
			p2 := *prev
			if p2.H == after.H {
				p2.Step = after.Step
			}
			prev = &p2
		}
	}
	if cr.truncated == 0 {
		w.Evals.Inc("C07.digest-equal")
		if d := last.diff(after); len(d) > 0 {
			w.violate("C07", "replay-state-differs", "intact-log"+suffix, "node %d, killed at a quiescent point of height %d and restarted from an intact log, does not resume where it was: %s", nd.id, after.H, strings.Join(d, "; "))
		} else if fastPath {
			w.violate("C07", "replay-state-differs", "step-after-skip-timeout-commit", "node %d, restarted in height %d, has everything back but the step: it entered round 0 through the skip_timeout_commit path, whose trigger is logged under the previous height; it waits for the commit timeout again (was at step %d)", nd.id, after.H, cr.last.Step)
		} else {
			w.Probes.Inc("C07_replay_exact")
		}
		return
	}
	w.Evals.Inc("C07.digest-between")
	lo := prev
	if lo == nil || lo.H != last.H {
		return
	}
	if ok, why := after.between(lo, last); !ok {
		w.violate("C07", "replay-state-outside", "torn-tail"+suffix, "node %d, restarted from a log cut %d bytes into its last record, is neither at the state before nor after that record: %s", nd.id, cr.truncated, why)
	} else if fastPath {
		w.violate("C07", "replay-state-differs", "step-after-skip-timeout-commit", "node %d, restarted in height %d from a torn log, has everything back but the step (skip_timeout_commit path)", nd.id, after.H)
	} else {
		w.Probes.Inc("C07_replay_within_bounds")
	}
}

type crashInfo struct {
	prev, last    *Dig
	armed         bool
	truncated     int64
	claims        int
	uncompensated bool
}

package csim

import (
	"github.com/dappledger/AnnChain/gemmill/go-wire"
	"fmt"
	"os"
	"strconv"
	"testing"

	"verif/simrt"
)

func envInt(k string, def int) int {
	if v := os.Getenv(k); v != "" {
		if n, err := strconv.Atoi(v); err == nil {
			return n
		}
	}
	return def
}

// TestSmoke: a handful of seeds, prints what happened.
func TestSmoke(t *testing.T) {
	base := uint64(envInt("VERIF_SEED", 1))
	n := envInt("VERIF_RUNS", 3)
	for i := 0; i < n; i++ {
		seed := simrt.Mix(base, "smoke", uint64(i))
		cfg := DrawConfig(seed, os.Getenv("VERIF_PROFILE"))
		var w *World
		rp := simrt.Bubble(t, func() {
			w = NewWorld(t, cfg)
			defer w.Close()
			w.Run(nil)
		})
		if rp != nil {
			t.Fatalf("root panic: %v", rp)
		}
		hs := ""
		for _, nd := range w.nodes {
			if nd != nil {
				hs += fmt.Sprintf(" n%d:%d", nd.id, w.DiskStore(nd).Height())
			}
		}
		fmt.Printf("seed=%d N=%d byz=%v steps=%d sim=%v heights=%s loghash=%s faults=%v probes=%v viol=%v\n", seed, cfg.N, cfg.Byz, w.Step, w.Now(), hs, w.Log.Hash(), w.Faults, w.Probes, w.Violations)
	}
}

// TestDebug runs one exact seed for one property with the event log kept.
func TestDebug(t *testing.T) {
	s := os.Getenv("VERIF_DEBUG_SEED")
	if s == "" {
		t.Skip()
	}
	seed, _ := strconv.ParseUint(s, 10, 64)
	prop := os.Getenv("VERIF_PROP")
	cfg := DrawConfig(seed, profileFor(prop))
	adjustConfigFor(&cfg, prop, seed)
	o := runOnce(t, cfg, prop, knownSet(), nil, func(w *World) {
		configureFor(w, prop)
		w.Log.Keep = true
		if os.Getenv("VERIF_DUMPVOTES") != "" {
			w.AtEnd = dumpVotes
		}
	})
	w := o.w
	fmt.Printf("cfg=%s\n", cfg.JSON())
	tail := envInt("VERIF_TAIL", 80)
	lines := w.Log.Text
	if len(lines) > tail {
		lines = lines[len(lines)-tail:]
	}
	for _, l := range lines {
		fmt.Println(l)
	}
	for _, v := range w.Violations {
		fmt.Printf("VIOLATION %+v\n", v)
	}
	if hs := os.Getenv("VERIF_DUMPBLOCK"); hs != "" {
		h, _ := strconv.ParseInt(hs, 10, 64)
		for _, nd := range w.nodes {
			if nd == nil {
				continue
			}
			st := w.DiskStore(nd)
			if b := st.LoadBlock(h); b != nil {
				m := st.LoadBlockMeta(h)
				fmt.Printf("n%d block %d: %d bytes, %d txs, meta parts %v, part0 %d bytes\n", nd.id, h, len(wire.BinaryBytes(b)), len(b.Data.Txs), m.PartsHeader, len(st.LoadBlockPart(h, 0).Bytes))
			}
		}
	}
}

func dumpVotes(w *World) {
	for _, v := range w.views() {
		rs := v.rs
		if rs.Votes == nil {
			continue
		}
		for r := int64(0); r <= 1; r++ {
			pv := rs.Votes.Prevotes(r)
			if pv == nil {
				continue
			}
			s := ""
			for i := 0; i < pv.Size(); i++ {
				if vt := pv.GetByIndex(i); vt != nil {
					s += fmt.Sprintf(" %d:%X", i, fp(vt.BlockID.Hash))
				}
			}
			fmt.Printf("n%d pv%d:%s\n", v.nd.id, r, s)
		}
	}
}

// Package csim is the message-level consensus simulator: N real validators
// (real pbft.ConsensusState, reactor Receive path, WAL, signer file, block
// store, state) plus Byzantine puppets, inside one synctest bubble. The
// harness decides every delivery, timeout release, clock advance, crash and
// restart; nodes run to quiescence between two decisions.
package csim

import (
	"encoding/json"
	"fmt"
	"os"
	"path/filepath"
	"sort"
	"testing"
	"testing/synctest"
	"time"

	"github.com/spf13/viper"
	"go.uber.org/zap"

	bc "github.com/dappledger/AnnChain/gemmill/blockchain"
	"github.com/dappledger/AnnChain/gemmill/consensus/pbft"
	crypto "github.com/dappledger/AnnChain/gemmill/go-crypto"
	"github.com/dappledger/AnnChain/gemmill/mempool"
	gcmn "github.com/dappledger/AnnChain/gemmill/modules/go-common"
	glog "github.com/dappledger/AnnChain/gemmill/modules/go-log"
	"github.com/dappledger/AnnChain/gemmill/p2p"
	sm "github.com/dappledger/AnnChain/gemmill/state"
	"github.com/dappledger/AnnChain/gemmill/types"
	"github.com/dappledger/AnnChain/simhook"

	"verif/simdisk"
	"verif/simrt"
)

const ChainID = "simchain"

// Config is the complete description of a run apart from its action list.
type Config struct {
	Seed   uint64  `json:"seed"`
	N      int     `json:"n"`
	Powers []int64 `json:"powers"`
	Byz    []bool  `json:"byz"`

	TPropose, TProposeDelta     int `json:",omitempty"`
	TPrevote, TPrevoteDelta     int `json:",omitempty"`
	TPrecommit, TPrecommitDelta int `json:",omitempty"`
	TCommit                     int `json:",omitempty"`
	SkipTimeoutCommit           bool
	BlockPartSize               int
	WALHeadLimit                int64
	MsgQueueSize                int

	MaxSteps     int
	TargetHeight int64

	// policy weights (relative)
	WDeliver, WTock, WAdvance, WCrash, WRestart, WByz, WTx, WStale, WInject int
	MaxCrashes                                                              int
	WALTruncate                                                             bool // truncate the WAL tail on restart
	ArmedCrashes                                                            bool // crash before the k-th durable write instead of "now"
	Partition                                                               bool
	DelayPct, DelayMax                                                      int    // slow links: share of (artefact, receiver) pairs held back, and for at most how many steps
	BigTx                                                                   bool   // some transactions are several KB (WAL records beyond 4096 bytes)
	Attack                                                                  string // "split": a coordinated equivocation attack (see attack.go)
	Sides                                                                   []int  // split attack: side (0/1) of every validator id
	Victim                                                                  int    // laggard attack: the validator kept a round behind
	ValChanges                                                              bool
	Script                                                                  string
	Compensate                                                              bool // supply the proposer cache after a reload (finding F1)
	Suffix                                                                  bool // append the fair suffix (liveness)
	SuffixByzSilent                                                         bool
	// BadBlockFocus: Byzantine proposers open their rounds with a defective block (policy.go); set for C02 only
	BadBlockFocus bool `json:"bad_block_focus,omitempty"`

	// which oracle families are evaluated (all by default)
	Oracles map[string]bool `json:",omitempty"`
}

func (c *Config) JSON() json.RawMessage {
	b, _ := json.Marshal(c)
	return b
}

type valInfo struct {
	id    int
	key   crypto.PrivKeyEd25519
	pub   crypto.PubKey
	addr  []byte
	power int64
	byz   bool
}

// Incarnation is one process lifetime of a node.
type Incarnation struct {
	node   *Node
	gen    int
	life   *simdisk.Life
	cs     *pbft.ConsensusState
	conR   *pbft.ConsensusReactor
	sw     *p2p.Switch
	evsw   types.EventSwitch
	store  *bc.BlockStore
	pool   *mempool.Mempool
	ticker *pbft.VerifTicker
	pv     *types.PrivValidator
	peers  map[int]*p2p.Peer
	// deaths other than an injected crash
	panicSite     string
	panicVal      string
	panicStk      string
	exited        string
	started       bool
	delivered     map[string]int
	startHeight   int64
	deliveredStep map[string]int
	claims        map[string]int
	quiesced      bool
	untrusted     int // adversarial inputs handed to this incarnation
}

// OnPanic implements simrt.Owner: a panic on any goroutine of the node kills the node, not the simulation.
func (inc *Incarnation) OnPanic(site string, val interface{}, stack []byte) {
	if _, ok := val.(simdisk.CrashPanic); ok {
		return // a goroutine of a crashed incarnation unwinding
	}
	if inc.life.Dead() {
		return // whatever a dead process does while it falls apart is not behaviour
	}
	if _, ok := val.(exitPanic); ok {
		inc.exited = fmt.Sprint(val)
	} else if inc.panicSite == "" {
		inc.panicSite = site
		inc.panicVal = fmt.Sprint(val)
		inc.panicStk = string(stack)
	}
	inc.life.Kill("panic: " + fmt.Sprint(val))
}

func (inc *Incarnation) Alive() bool { return inc != nil && inc.started && !inc.life.Dead() }

type exitPanic struct{ s string }

func (e exitPanic) String() string { return "gcmn.Exit: " + e.s }

type Node struct {
	id      int
	val     *valInfo
	dir     string
	disk    *simdisk.Disk
	inc     *Incarnation
	gens    int
	crashes int
	// last write sizes of files (path -> size before the last write) for tail truncation
	lastFileWrite map[string]int64
	scannedHeight int64 // block-store heights already exported to the pool
	lastDigest    string
	digPrev       *Dig // digest before the last step that changed it
	digLast       *Dig
	crash         *crashInfo
	claimsAt      map[int64]int // height -> peer-majority claims delivered to any incarnation
}

type World struct {
	byzProposed map[[2]int64]int // policy: how many proposals the Byzantine proposer of (height, round) has made
	sideOf map[string]int // split attack: item id / part-set hash -> the side a Byzantine artefact is meant for

	T   *testing.T
	Cfg Config
	Rng *simrt.Rand
	Reg *simrt.Registry
	Log simrt.Log

	Faults simrt.Counter
	Probes simrt.Counter
	Evals  simrt.Counter
	States map[string]bool

	baseDir string
	vals    []*valInfo
	genesis *types.GenesisDoc
	nodes   []*Node // index = validator id; nil for Byzantine validators
	pool    *Pool
	start   time.Time

	Actions    []simrt.Action
	Step       int
	Violations []simrt.Violation

	oracles []Oracle
	ledger  *sigLedger
	commits map[int64]*commitRec
	// replay
	replaying bool

	stop        bool
	cleanProp   map[int64][]byte // height -> round-0 proposer as computed by incarnations that did not reload
	refSets     map[int64]*refSet
	ledgers     map[int]*voteLedger
	locks       map[int]*lockState
	maj         map[string]string
	incReported map[*Incarnation]bool
	txSeq       int
	suffixSim   time.Duration
	untrusted   bool

	// extension points
	RefApp          func(b *types.Block) (app, rcpt []byte)
	Injector        func(w *World, a simrt.Action) bool
	DrawInject      func(w *World, live []*Node) (simrt.Action, bool)
	OnRestart       func(w *World, nd *Node)
	StopOnViolation bool
	AtEnd           func(w *World)
	TrackDigests    bool
	Target          string          // property whose violations end the run
	Known           map[string]bool // property/oracle/key of known findings: recorded, never end the run
}

func synctestWait() { synctest.Wait() }

type commitRec struct {
	hash  []byte
	by    int
	block *types.Block
}

func init() {
	if os.Getenv("VERIF_NODELOG") != "" {
		l, _ := zap.NewDevelopment()
		glog.SetLog(l)
		glog.SetAuditLog(zap.NewNop())
		crypto.NodeInit(crypto.CryptoType)
		return
	}
	glog.SetLog(zap.NewNop())
	glog.SetAuditLog(zap.NewNop())
	crypto.NodeInit(crypto.CryptoType)
}

// NewWorld must be called inside the bubble.
func NewWorld(t *testing.T, cfg Config) *World {
	w := &World{T: t, Cfg: cfg, Rng: simrt.NewRand(cfg.Seed), Reg: simrt.NewRegistry(),
		Faults: simrt.Counter{}, Probes: simrt.Counter{}, Evals: simrt.Counter{}, States: map[string]bool{},
		commits: map[int64]*commitRec{}, incReported: map[*Incarnation]bool{}, StopOnViolation: true, cleanProp: map[int64][]byte{}}
	simhook.GoHook = w.Reg.Go
	gcmn.VerifExitHook = func(s string) { panic(exitPanic{s}) }
	gcmn.VerifPointHook = w.filePoint
	if cfg.MsgQueueSize > 0 {
		pbft.VerifSetMsgQueueSize(cfg.MsgQueueSize)
	} else {
		pbft.VerifSetMsgQueueSize(1000)
	}
	dir, err := os.MkdirTemp("", "csim-")
	if err != nil {
		panic(err)
	}
	w.baseDir = dir
	w.start = time.Now()
	w.pool = newPool()
	w.pool.now = func() int { return w.Step }
	w.ledger = newSigLedger()

	// validators: keys derived from the seed, ids = order by address
	var vs []*valInfo
	for i := 0; i < cfg.N; i++ {
		k := crypto.GenPrivKeyEd25519FromSecret([]byte(fmt.Sprintf("csim-%d-%d", cfg.Seed, i)))
		pub := k.PubKey()
		vs = append(vs, &valInfo{key: k, pub: pub, addr: pub.Address()})
	}
	sort.Slice(vs, func(i, j int) bool { return string(vs[i].addr) < string(vs[j].addr) })
	gen := &types.GenesisDoc{GenesisTime: w.start, ChainID: ChainID}
	for i, v := range vs {
		v.id = i
		v.power = cfg.Powers[i]
		v.byz = cfg.Byz[i]
		gen.Validators = append(gen.Validators, types.GenesisValidator{PubKey: v.pub, Amount: v.power, Name: fmt.Sprintf("v%d", i)})
	}
	w.vals = vs
	w.genesis = gen
	w.nodes = make([]*Node, cfg.N)
	for i, v := range vs {
		if v.byz {
			continue
		}
		nd := &Node{id: i, val: v, dir: filepath.Join(dir, fmt.Sprintf("n%d", i)), disk: simdisk.NewDisk(), lastFileWrite: map[string]int64{}, claimsAt: map[int64]int{}}
		os.MkdirAll(nd.dir, 0700)
		w.nodes[i] = nd
	}
	w.oracles = defaultOracles(w)
	return w
}

func (w *World) Close() {
	for _, nd := range w.nodes {
		if nd != nil && nd.inc != nil {
			w.quiesceDead(nd.inc)
		}
	}
	simhook.GoHook = nil
	gcmn.VerifExitHook = nil
	gcmn.VerifPointHook = nil
	os.RemoveAll(w.baseDir)
}

func (w *World) Now() time.Duration { return time.Since(w.start) }

// filePoint is the fault point behind WAL writes/rotation and the signer file.
func (w *World) filePoint(op, path string) error {
	o := w.Reg.Current()
	inc, _ := o.(*Incarnation)
	if inc == nil {
		return nil
	}
	if op == "file-write" {
		if fi, err := os.Stat(path); err == nil {
			inc.node.lastFileWrite[path] = fi.Size()
		} else {
			inc.node.lastFileWrite[path] = 0
		}
	}
	return inc.life.BeforeWrite("file:" + op + " " + filepath.Base(path))
}

// call runs f on a goroutine owned by inc and waits for quiescence. It returns
// false when f has not returned (blocked, parked by a crash point, or panicked).
func (w *World) call(inc *Incarnation, site string, f func()) bool {
	done := false
	w.Reg.GoAs(inc, site, func() {
		f()
		done = true
	})
	synctest.Wait()
	if inc != nil && inc.life.Dead() && !inc.quiesced {
		w.quiesceDead(inc)
	}
	return done
}

func (w *World) conf(nd *Node) *viper.Viper {
	c := viper.New()
	cfg := &w.Cfg
	c.Set("chain_id", ChainID)
	c.Set("cs_wal_dir", filepath.Join(nd.dir, "cs.wal"))
	c.Set("cs_wal_light", false)
	c.Set("block_size", 50)
	c.Set("block_part_size", cfg.BlockPartSize)
	c.Set("timeout_propose", cfg.TPropose)
	c.Set("timeout_propose_delta", cfg.TProposeDelta)
	c.Set("timeout_prevote", cfg.TPrevote)
	c.Set("timeout_prevote_delta", cfg.TPrevoteDelta)
	c.Set("timeout_precommit", cfg.TPrecommit)
	c.Set("timeout_precommit_delta", cfg.TPrecommitDelta)
	c.Set("timeout_commit", cfg.TCommit)
	c.Set("skip_timeout_commit", cfg.SkipTimeoutCommit)
	c.Set("mempool_wal_dir", "")
	c.Set("mempool_recheck", false)
	c.Set("mempool_enable_txs_limits", false)
	c.Set("pex_reactor", false)
	c.Set("moniker", fmt.Sprintf("n%d", nd.id))
	c.Set("p2p_laddr", "tcp://0.0.0.0:0")
	c.Set("fast_sync", false)
	return c
}

func (w *World) pvFile(nd *Node) string { return filepath.Join(nd.dir, "priv_validator.json") }

// StartNode builds a new incarnation of nd from whatever its disk and files hold.
func (w *World) StartNode(nd *Node) bool {
	nd.gens++
	nd.digPrev, nd.digLast = nil, nil // digests never span incarnations
	inc := &Incarnation{node: nd, gen: nd.gens, peers: map[int]*p2p.Peer{}, delivered: map[string]int{}, deliveredStep: map[string]int{}, claims: map[string]int{}}
	inc.life = simdisk.NewLife(fmt.Sprintf("n%d.%d", nd.id, nd.gens), nil)
	nd.inc = inc
	ok := w.call(inc, "start", func() {
		conf := w.conf(nd)
		stateDB := simdisk.NewDB(nd.disk.Store("state"), inc.life)
		bsDB := simdisk.NewDB(nd.disk.Store("blockstore"), inc.life)
		archDB := simdisk.NewDB(nd.disk.Store("archive"), inc.life)
		st := sm.LoadState(stateDB)
		if st == nil {
			g := *w.genesis
			g.Validators = append([]types.GenesisValidator(nil), w.genesis.Validators...)
			st = sm.MakeGenesisState(stateDB, &g)
			st.Save()
		}
		inc.store = bc.NewBlockStore(bsDB, archDB)
		inc.pool = mempool.NewMempool(conf)
		pvf := w.pvFile(nd)
		var pv *types.PrivValidator
		if _, err := os.Stat(pvf); err != nil {
			pv, _ = types.GenPrivValidator(crypto.CryptoType, nd.val.key)
			pv.SetFile(pvf)
			pv.Save()
		} else {
			var err error
			pv, err = types.LoadPrivValidator(pvf)
			if err != nil {
				panic(fmt.Sprintf("LoadPrivValidator: %v", err))
			}
			if len(pv.Address) == 0 {
				pv.Address = pv.PubKey.Address()
			}
		}
		inc.pv = pv
		cs := pbft.NewConsensusState(conf, st, inc.store, inc.pool)
		if cs == nil {
			panic("NewConsensusState returned nil")
		}
		inc.cs = cs
		if w.Cfg.Compensate && nd.gens > 1 {
			// see DESIGN.md "finding F1": the proposer cache does not survive persistence;
			// supply what the replicas that did not restart computed, to explore beyond it
			if addr := w.cleanProp[st.LastBlockHeight+1]; addr != nil {
				if cs.Validators.VerifSetProposer(addr) {
					w.Probes.Inc("proposer_cache_compensated")
				}
			} else if nd.crash != nil {
				nd.crash.uncompensated = true
			}
		}
		cs.SetPrivValidator(&signerRec{pv: pv, w: w, node: nd.id})
		inc.ticker = pbft.NewVerifTicker()
		cs.SetTimeoutTicker(inc.ticker)
		if w.Cfg.WALHeadLimit > 0 {
			cs.VerifSetWALHeadSizeLimit(w.Cfg.WALHeadLimit)
		}
		inc.conR = pbft.NewConsensusReactor(cs, false)
		cs.BindReactor(inc.conR)
		inc.evsw = types.NewEventSwitch()
		inc.evsw.Start()
		inc.sw = p2p.NewSwitch(conf)
		inc.sw.AddReactor("CONSENSUS", inc.conR)
		inc.conR.SetEventSwitch(inc.evsw)
		st.SetBlockExecutable(&liteExec{w: w, nd: nd})
		st.SetBlockVerifier(cs)
		installLiteApp(w, inc)
		for _, v := range w.vals {
			if v.id == nd.id {
				continue
			}
			inc.peers[v.id] = newStubPeer(v)
		}
		if _, err := inc.conR.Start(); err != nil {
			panic(fmt.Sprintf("conR.Start: %v", err))
		}
		inc.startHeight = st.LastBlockHeight + 1
		inc.started = true
	})
	if !ok && !inc.life.Dead() {
		// start-up neither finished nor died: wedged
		w.Probes.Inc("start_wedged")
	}
	return ok
}

// Kill ends the current incarnation as a process death "now".
func (w *World) Kill(nd *Node, reason string) {
	inc := nd.inc
	if inc == nil {
		return
	}
	inc.life.Kill(reason)
	w.quiesceDead(inc)
}

// quiesceDead stops the timers of a dead incarnation so that they neither move
// the simulated clock nor touch files the successor owns. Nothing here takes a
// lock that a parked goroutine may hold.
func (w *World) quiesceDead(inc *Incarnation) {
	inc.quiesced = true
	if inc.ticker != nil {
		inc.ticker.Stop()
	}
	if inc.cs != nil {
		inc.cs.VerifStopWALTickers()
	}
	synctest.Wait()
}

// Snapshot reads the round state of a live node on a goroutine of its own: if
// the node holds its state lock while blocked, that is observed instead of hanging the harness.
func (w *World) Snapshot(inc *Incarnation) *pbft.RoundState {
	if !inc.Alive() {
		return nil
	}
	var rs *pbft.RoundState
	ok := w.call(inc, "snapshot", func() { rs = inc.cs.GetRoundState() })
	if !ok {
		return nil
	}
	return rs
}

func (w *World) StateOf(inc *Incarnation) *sm.State {
	if !inc.Alive() {
		return nil
	}
	var st *sm.State
	if !w.call(inc, "getstate", func() { st = inc.cs.GetState() }) {
		return nil
	}
	return st
}

func (w *World) LiveNodes() []*Node {
	var r []*Node
	for _, nd := range w.nodes {
		if nd != nil && nd.inc.Alive() {
			r = append(r, nd)
		}
	}
	return r
}

func (w *World) HonestNodes() []*Node {
	var r []*Node
	for _, nd := range w.nodes {
		if nd != nil {
			r = append(r, nd)
		}
	}
	return r
}

// DiskStore opens a read-only view of a node's block store as it is on disk.
func (w *World) DiskStore(nd *Node) *bc.BlockStore {
	return bc.NewBlockStore(simdisk.NewDB(nd.disk.Store("blockstore"), nil), simdisk.NewDB(nd.disk.Store("archive"), nil))
}

func (w *World) DiskState(nd *Node) *sm.State {
	return sm.LoadState(simdisk.NewDB(nd.disk.Store("state"), nil))
}

func (w *World) violate(prop, oracle, key, format string, args ...interface{}) {
	v := simrt.Violation{Property: prop, Oracle: oracle, Key: key, Msg: fmt.Sprintf(format, args...), Step: w.Step}
	for _, o := range w.Violations {
		if o.Property == v.Property && o.Oracle == v.Oracle && o.Key == v.Key {
			return
		}
	}
	w.Violations = append(w.Violations, v)
	w.Log.Add("VIOLATION %s %s %s", prop, oracle, v.Msg)
	if (w.Target == "" || w.Target == prop) && !w.Known[prop+"/"+oracle+"/"+key] {
		w.stop = true
	}
}

// newStubPeer: an inert but valid p2p.Peer (not running, so Send/TrySend return false) with a real PeerState.
func newStubPeer(v *valInfo) *p2p.Peer {
	p := &p2p.Peer{NodeInfo: &p2p.NodeInfo{PubKey: v.pub, Moniker: fmt.Sprintf("v%d", v.id)}, Key: fmt.Sprintf("v%d", v.id), Data: gcmn.NewCMap()}
	p.Data.Set(types.PeerStateKey, pbft.NewPeerState(p))
	return p
}

// reconnect models what production does after a panic inside Receive: the connection's
// recover drops the peer; when it connects again it gets a fresh PeerState.
func (w *World) reconnect(inc *Incarnation, id int) {
	if id >= 0 && id < len(w.vals) && inc.peers[id] != nil {
		inc.peers[id] = newStubPeer(w.vals[id])
		w.Probes.Inc("peer_dropped_and_reconnected")
	}
}

package csim

import (
	"bytes"
	"crypto/sha256"
	"encoding/hex"
	"fmt"

	"github.com/dappledger/AnnChain/gemmill/consensus/pbft"
	"github.com/dappledger/AnnChain/gemmill/go-wire"
	"github.com/dappledger/AnnChain/gemmill/types"
)

const (
	kVote = iota
	kProposal
	kPart
	kRaw   // arbitrary bytes / hand-made message (injection)
	kClaim // "I have +2/3 for this block" (VoteSetMaj23), what queryMaj23Routine sends
)

// Item is one deliverable artefact: everything any honest node could gossip
// plus everything the Byzantine puppets have produced.
type Item struct {
	ID     string
	Kind   int
	H, R   int64
	Type   byte // vote type
	Signer int  // validator id of the signer / proposer (-1 unknown)
	Vote   *types.Vote
	Prop   *types.Proposal
	Part   *types.Part
	PSH    types.PartSetHeader // for parts: the set they belong to
	Byz    bool
	Bad    string // non-empty: known-invalid by construction (why)
	Ch     byte
	Raw    []byte
	Claim  types.BlockID
	Held   bool   // some honest node holds it (and would gossip it on)
	ckey   string // claim key of a vote (round/type/block), precomputed
	seq    int
	born   int // step at which the artefact came into existence (policy: delayed links)
}

func (it *Item) String() string {
	switch it.Kind {
	case kVote:
		return fmt.Sprintf("vote{%s v%d h%d r%d t%d blk:%x}", it.ID, it.Signer, it.H, it.R, it.Type, fp(it.Vote.BlockID.Hash))
	case kProposal:
		return fmt.Sprintf("prop{%s v%d h%d r%d parts:%x pol:%d}", it.ID, it.Signer, it.H, it.R, fp(it.Prop.BlockPartsHeader.Hash), it.Prop.POLRound)
	case kPart:
		return fmt.Sprintf("part{%s h%d set:%x idx:%d}", it.ID, it.H, fp(it.PSH.Hash), it.Part.Index)
	}
	if it.Kind == kClaim {
		return fmt.Sprintf("maj23claim{%s n%d h%d r%d t%d blk:%x}", it.ID, it.Signer, it.H, it.R, it.Type, fp(it.Claim.Hash))
	}
	return fmt.Sprintf("raw{%s ch:%x len:%d}", it.ID, it.Ch, len(it.Raw))
}

func fp(b []byte) []byte {
	if len(b) > 4 {
		return b[:4]
	}
	return b
}

type blockRef struct {
	ID    types.BlockID
	H     int64
	Block *types.Block
	Parts *types.PartSet
}

type Pool struct {
	now      func() int // current step
	items    []*Item
	byID     map[string]*Item
	byH      map[int64][]*Item
	blocks   map[int64][]*blockRef // complete blocks known per height
	partsN   map[string]int        // parts-header key -> number of parts in pool
	heldSets map[string]bool
}

func newPool() *Pool {
	return &Pool{byID: map[string]*Item{}, byH: map[int64][]*Item{}, blocks: map[int64][]*blockRef{}, partsN: map[string]int{}, heldSets: map[string]bool{}}
}

func shortHash(parts ...[]byte) string {
	h := sha256.New()
	for _, p := range parts {
		h.Write(p)
		h.Write([]byte{0})
	}
	return hex.EncodeToString(h.Sum(nil)[:5])
}

func (p *Pool) add(it *Item) *Item {
	if old, ok := p.byID[it.ID]; ok {
		return old
	}
	it.seq = len(p.items)
	if p.now != nil {
		it.born = p.now()
	}
	p.items = append(p.items, it)
	p.byID[it.ID] = it
	p.byH[it.H] = append(p.byH[it.H], it)
	return it
}

func (p *Pool) AddVote(v *types.Vote, signer int, byz bool, bad string) *Item {
	if v == nil {
		return nil
	}
	id := "v" + shortHash(v.Signature.Bytes(), []byte(fmt.Sprintf("%d/%d/%d/%d", v.ValidatorIndex, v.Height, v.Round, v.Type)), v.BlockID.Hash)
	if old, ok := p.byID[id]; ok {
		return old
	}
	return p.add(&Item{ID: id, Kind: kVote, H: v.Height, R: v.Round, Type: v.Type, Signer: signer, Vote: v, Byz: byz, Bad: bad, ckey: claimKey(v.Round, v.Type, v.BlockID.Key())})
}

func (p *Pool) AddProposal(pr *types.Proposal, signer int, byz bool, bad string) *Item {
	if pr == nil {
		return nil
	}
	var sig []byte
	if pr.Signature != nil {
		sig = pr.Signature.Bytes()
	}
	id := "p" + shortHash(sig, []byte(fmt.Sprintf("%d/%d/%d", pr.Height, pr.Round, pr.POLRound)), pr.BlockPartsHeader.Hash)
	return p.add(&Item{ID: id, Kind: kProposal, H: pr.Height, R: pr.Round, Signer: signer, Prop: pr, Byz: byz, Bad: bad})
}

func (p *Pool) AddPart(h int64, psh types.PartSetHeader, part *types.Part, signer int, byz bool, bad string) *Item {
	if part == nil {
		return nil
	}
	id := "b" + shortHash(psh.Hash, []byte(fmt.Sprintf("%d/%d/%d", h, psh.Total, part.Index)), part.Hash())
	if _, ok := p.byID[id]; !ok && bad == "" {
		p.partsN[string(psh.Hash)]++
	}
	return p.add(&Item{ID: id, Kind: kPart, H: h, Signer: signer, Part: part, PSH: psh, Byz: byz, Bad: bad})
}

func (p *Pool) AddClaim(h, r int64, t byte, id types.BlockID, from int) *Item {
	iid := "c" + shortHash([]byte(fmt.Sprintf("%d/%d/%d/%d", h, r, t, from)), []byte(id.Key()))
	return p.add(&Item{ID: iid, Kind: kClaim, H: h, R: r, Type: t, Signer: from, Claim: id})
}

// AddPartSet exports a complete part set and remembers the block it encodes.
func (p *Pool) AddPartSet(h int64, ps *types.PartSet, signer int, byz bool) {
	if ps == nil || !ps.IsComplete() {
		return
	}
	psh := ps.Header()
	if p.partsN[string(psh.Hash)] >= psh.Total && (byz || p.heldSets[string(psh.Hash)]) {
		return
	}
	if !byz {
		p.heldSets[string(psh.Hash)] = true
	}
	for i := 0; i < ps.Total(); i++ {
		if it := p.AddPart(h, psh, ps.GetPart(i), signer, byz, ""); it != nil && !byz {
			it.Held = true
		}
	}
	var n int
	var err error
	blk, _ := wire.ReadBinary(&types.Block{}, ps.GetReader(), types.MaxBlockSize, &n, &err).(*types.Block)
	if err != nil || blk == nil || blk.Header == nil || blk.Data == nil || blk.LastCommit == nil {
		return
	}
	hash := blk.Hash()
	if hash == nil {
		return
	}
	for _, b := range p.blocks[h] {
		if bytes.Equal(b.ID.Hash, hash) && b.ID.PartsHeader.Equals(psh) {
			return
		}
	}
	p.blocks[h] = append(p.blocks[h], &blockRef{ID: types.BlockID{Hash: hash, PartsHeader: psh}, H: h, Block: blk, Parts: ps})
}

func (it *Item) encode() (ch byte, bz []byte) {
	switch it.Kind {
	case kVote:
		return pbft.VoteChannel, wire.BinaryBytes(struct{ pbft.ConsensusMessage }{&pbft.VoteMessage{Vote: it.Vote}})
	case kProposal:
		return pbft.DataChannel, wire.BinaryBytes(struct{ pbft.ConsensusMessage }{&pbft.ProposalMessage{Proposal: it.Prop}})
	case kPart:
		return pbft.DataChannel, wire.BinaryBytes(struct{ pbft.ConsensusMessage }{&pbft.BlockPartMessage{Height: it.H, Round: it.R, Part: it.Part}})
	}
	if it.Kind == kClaim {
		return pbft.StateChannel, wire.BinaryBytes(struct{ pbft.ConsensusMessage }{&pbft.VoteSetMaj23Message{Height: it.H, Round: it.R, Type: it.Type, BlockID: it.Claim}})
	}
	return it.Ch, it.Raw
}

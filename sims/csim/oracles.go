package csim

import (
	"bytes"
	"fmt"
	"strings"

	"github.com/dappledger/AnnChain/gemmill/consensus/pbft"
	"github.com/dappledger/AnnChain/gemmill/go-wire"
	"github.com/dappledger/AnnChain/gemmill/types"
)

type Oracle interface {
	AfterStep(w *World, vs []*view)
}

func defaultOracles(w *World) []Oracle {
	return []Oracle{&commitOracle{checked: map[int]int64{}}, &voteAcctOracle{}, &proposerOracle{props: map[[2]int64][]byte{}, valHash: map[int64][]byte{}}}
}

func (w *World) enabled(name string) bool {
	if w.Cfg.Oracles == nil {
		return true
	}
	return w.Cfg.Oracles[name]
}

// ---------------------------------------------------------------------------
// C01 agreement + linear chain, C02 validity/justification, C04(d) commit rule.
// Evaluated for every block a node newly stored.

type commitOracle struct {
	checked map[int]int64 // node -> highest height already judged
}

func (o *commitOracle) AfterStep(w *World, vs []*view) {
	for _, v := range vs {
		store := v.nd.inc.store
		sh := store.Height()
		for h := o.checked[v.nd.id] + 1; h <= sh; h++ {
			o.judge(w, v.nd, h)
			o.checked[v.nd.id] = h
		}
	}
}

// RecheckFromDisk re-judges every stored block of a node from its durable state (after a restart).
func (o *commitOracle) RecheckFromDisk(w *World, nd *Node) {
	store := w.DiskStore(nd)
	for h := int64(1); h <= store.Height(); h++ {
		meta := store.LoadBlockMeta(h)
		w.Evals.Inc("C01.disk-recheck")
		if meta == nil {
			w.violate("C06", "block-lost", "meta", "node %d: block %d below the store height %d is not readable after restart", nd.id, h, store.Height())
			continue
		}
		if c := w.commits[h]; c != nil && !bytes.Equal(c.hash, meta.Hash) {
			w.violate("C01", "agreement", "disk", "height %d: node %d holds %X on disk after restart, node %d committed %X", h, nd.id, fp(meta.Hash), c.by, fp(c.hash))
		}
	}
}

func (o *commitOracle) judge(w *World, nd *Node, h int64) {
	store := nd.inc.store
	meta := store.LoadBlockMeta(h)
	blk := store.LoadBlock(h)
	if meta == nil || blk == nil {
		w.violate("C02", "stored-block-unreadable", "load", "node %d: height %d is below the store height but does not load", nd.id, h)
		return
	}
	w.Probes.Inc("commit_observed")
	if st := w.StateOf(nd.inc); st != nil && st.LastBlockHeight == h && st.Validators.VerifProposerCached() && !(nd.inc.gen > 1 && nd.inc.startHeight == h+1) {
		if _, ok := w.cleanProp[h+1]; !ok {
			w.cleanProp[h+1] = st.Validators.Proposer().Address
		}
	}
	// ---- C01 agreement
	w.Evals.Inc("C01.agreement")
	if c := w.commits[h]; c == nil {
		w.commits[h] = &commitRec{hash: meta.Hash, by: nd.id, block: blk}
		w.Log.Add("commit h%d %X by n%d", h, fp(meta.Hash), nd.id)
	} else if !bytes.Equal(c.hash, meta.Hash) {
		w.violate("C01", "agreement", "live", "height %d: node %d committed %X but node %d committed %X", h, nd.id, fp(meta.Hash), c.by, fp(c.hash))
	}
	// ---- C01 linearity (own chain)
	var prevID types.BlockID
	if h > 1 {
		pm := store.LoadBlockMeta(h - 1)
		if pm != nil {
			prevID = types.BlockID{Hash: pm.Hash, PartsHeader: pm.PartsHeader}
		}
	}
	w.Evals.Inc("C01.linear")
	if !blk.LastBlockID.Equals(prevID) {
		w.violate("C01", "linear-chain", "prev", "node %d: block %d names %v as predecessor but the node's block %d is %v", nd.id, h, blk.LastBlockID, h-1, prevID)
	}
	if !w.enabled("C02") {
		return
	}
	// ---- C02 validity
	w.Evals.Inc("C02.block")
	bad := func(key, f string, a ...interface{}) {
		w.violate("C02", "invalid-block-committed", key, "node %d committed block %d: %s", nd.id, h, fmt.Sprintf(f, a...))
	}
	if blk.Header.Height != h {
		bad("height", "header height %d", blk.Header.Height)
	}
	if blk.Header.ChainID != ChainID {
		bad("chainid", "chain id %q", blk.Header.ChainID)
	}
	// the previous-block id is part of what C02 states (hash and parts header: the id of the block this node committed at h-1)
	if !blk.LastBlockID.Equals(prevID) {
		bad("lastblockid", "names %v as predecessor but the node's block %d is %v", blk.LastBlockID, h-1, prevID)
	}
	if blk.Data == nil || blk.LastCommit == nil {
		bad("nil-field", "nil Data or LastCommit")
		return
	}
	if blk.Header.NumTxs != int64(len(blk.Data.Txs)+len(blk.Data.ExTxs)) {
		bad("numtxs", "NumTxs %d but %d transactions", blk.Header.NumTxs, len(blk.Data.Txs)+len(blk.Data.ExTxs))
	}
	// header commitments recomputed on a freshly decoded copy (no cached hashes)
	if fresh := redecode(blk); fresh != nil {
		if !bytes.Equal(blk.Header.DataHash, fresh.Data.Hash()) {
			bad("datahash", "DataHash %X != hash of data %X", fp(blk.Header.DataHash), fp(fresh.Data.Hash()))
		}
		if !bytes.Equal(blk.Header.LastCommitHash, fresh.LastCommit.Hash()) {
			bad("lastcommithash", "LastCommitHash %X != hash of last commit %X", fp(blk.Header.LastCommitHash), fp(fresh.LastCommit.Hash()))
		}
	}
	// application / receipts hash of the prior state (reference execution = lite app model)
	var wantApp, wantRcpt []byte
	if h > 1 {
		if pb := store.LoadBlock(h - 1); pb != nil {
			wantApp, wantRcpt = w.refAppHash(pb)
		}
	} else {
		wantApp = w.genesis.AppHash
	}
	if !bytes.Equal(blk.Header.AppHash, wantApp) {
		bad("apphash", "AppHash %X, prior state has %X", fp(blk.Header.AppHash), fp(wantApp))
	}
	if !bytes.Equal(blk.Header.ReceiptsHash, wantRcpt) {
		bad("receiptshash", "ReceiptsHash %X, prior state has %X", fp(blk.Header.ReceiptsHash), fp(wantRcpt))
	}
	// validator-set hash: what this very node holds as the set in force at h
	if st := w.DiskState(nd); st != nil && st.LastBlockHeight == h && st.LastValidators != nil {
		if !bytes.Equal(blk.Header.ValidatorsHash, st.LastValidators.Hash()) {
			bad("validatorshash", "ValidatorsHash %X != hash %X of the validator set in force at that height", fp(blk.Header.ValidatorsHash), fp(st.LastValidators.Hash()))
		}
	}
	ref := w.RefVals(h)
	if ref != nil && ref.indexOf(blk.Header.ProposerAddress) < 0 {
		bad("proposer", "proposer %X is not a validator at that height", fp(blk.Header.ProposerAddress))
	}
	// ---- C02 justification: the stored seen-commit, and the last-commit embedded in this block for h-1
	id := types.BlockID{Hash: meta.Hash, PartsHeader: meta.PartsHeader}
	w.Evals.Inc("C02.seen-commit")
	if err := w.verifyCommit(h, id, store.LoadSeenCommit(h)); err != nil {
		w.violate("C02", "seen-commit", "seen", "node %d: commit stored with block %d does not justify it: %v", nd.id, h, err)
	}
	w.Evals.Inc("C04.commit-rule")
	if w.enabled("C04") && !w.ledgerHasCommit(nd.id, h, id) {
		w.violate("C04", "commit-without-precommits", "commit", "node %d committed %X at height %d without having been given +2/3 precommits for it in one round", nd.id, fp(id.Hash), h)
	}
	if h > 1 {
		w.Evals.Inc("C02.last-commit")
		if err := w.verifyCommit(h-1, prevID, blk.LastCommit); err != nil {
			w.violate("C02", "last-commit", "last", "node %d: LastCommit inside block %d does not justify block %d: %v", nd.id, h, h-1, err)
		}
	} else if len(blk.LastCommit.Precommits) != 0 {
		bad("h1-lastcommit", "height 1 carries %d precommits", len(blk.LastCommit.Precommits))
	}
}

func redecode(b *types.Block) *types.Block {
	bz := wire.BinaryBytes(b)
	var n int
	var err error
	fresh, _ := wire.ReadBinary(&types.Block{}, bytes.NewReader(bz), types.MaxBlockSize, &n, &err).(*types.Block)
	if err != nil || fresh == nil || fresh.Data == nil || fresh.LastCommit == nil {
		return nil
	}
	return fresh
}

func (w *World) refAppHash(b *types.Block) (app, rcpt []byte) {
	if w.RefApp != nil {
		return w.RefApp(b)
	}
	return liteAppHash(b)
}

// verifyCommit is the harness's own commit verifier: shares only SignBytes and
// the signature primitive with the repository.
func (w *World) verifyCommit(h int64, id types.BlockID, c *types.Commit) error {
	if c == nil {
		return fmt.Errorf("no commit")
	}
	ref := w.RefVals(h)
	if ref == nil {
		return nil // reference set not determined yet (cannot happen for committed heights)
	}
	if len(c.Precommits) != len(ref.vals) {
		return fmt.Errorf("%d precommit slots for %d validators", len(c.Precommits), len(ref.vals))
	}
	round := int64(-1)
	var power int64
	for i, pc := range c.Precommits {
		if pc == nil {
			continue
		}
		if pc.Type != types.VoteTypePrecommit {
			return fmt.Errorf("slot %d is not a precommit", i)
		}
		if pc.Height != h {
			return fmt.Errorf("slot %d is for height %d", i, pc.Height)
		}
		if round == -1 {
			round = pc.Round
		} else if pc.Round != round {
			return fmt.Errorf("precommits of rounds %d and %d mixed", round, pc.Round)
		}
		if pc.ValidatorIndex != i || !bytes.Equal(pc.ValidatorAddress, ref.vals[i].addr) {
			return fmt.Errorf("slot %d holds a vote of validator index %d addr %X", i, pc.ValidatorIndex, fp(pc.ValidatorAddress))
		}
		if pc.Signature == nil || !w.vals[ref.vals[i].id].pub.VerifyBytes(types.SignBytes(ChainID, pc), pc.Signature) {
			return fmt.Errorf("slot %d: bad signature", i)
		}
		if pc.BlockID.Equals(id) {
			power += ref.vals[i].power
		}
	}
	if power*3 <= ref.total*2 {
		return fmt.Errorf("precommits for the block hold %d of %d voting power", power, ref.total)
	}
	return nil
}

func (w *World) ledgerHasCommit(node int, h int64, id types.BlockID) bool {
	ref := w.RefVals(h)
	if ref == nil {
		return true
	}
	l := w.nodeLedger(node)
	for _, r := range l.rounds(h, types.VoteTypePrecommit) {
		if l.powerFor(ref, h, r, types.VoteTypePrecommit, id.Key())*3 > ref.total*2 {
			return true
		}
	}
	return false
}

// ---------------------------------------------------------------------------
// C04 (a)(b)(c): evaluated the moment an honest node signs.

type lockState struct {
	h        int64
	bound    bool
	blockKey string
	psh      types.PartSetHeader
	hash     []byte
	round    int64
}

func (w *World) lockOf(node int, h int64) *lockState {
	if w.locks == nil {
		w.locks = map[int]*lockState{}
	}
	ls := w.locks[node]
	if ls == nil || ls.h != h {
		ls = &lockState{h: h}
		w.locks[node] = ls
	}
	return ls
}

// releasedBy checks whether the ledger of node contains a polka for something
// other than the bound block in a round r” with lo < r” <= hi.
func (w *World) polkaForOther(node int, ls *lockState, lo, hi int64) bool {
	ref := w.RefVals(ls.h)
	if ref == nil {
		return true
	}
	l := w.nodeLedger(node)
	for _, r := range l.rounds(ls.h, types.VoteTypePrevote) {
		if r <= lo || r > hi {
			continue
		}
		for _, bk := range l.blocksAt(ls.h, r, types.VoteTypePrevote) {
			if bk == ls.blockKey {
				continue
			}
			if l.powerFor(ref, ls.h, r, types.VoteTypePrevote, bk)*3 > ref.total*2 {
				return true
			}
		}
	}
	return false
}

func (w *World) onOwnVote(node int, v *types.Vote) {
	if !w.enabled("C04") {
		return
	}
	ref := w.RefVals(v.Height)
	if ref == nil {
		return
	}
	ls := w.lockOf(node, v.Height)
	l := w.nodeLedger(node)
	switch v.Type {
	case types.VoteTypePrecommit:
		w.Evals.Inc("C04.precommit")
		if len(v.BlockID.Hash) == 0 {
			return
		}
		if l.powerFor(ref, v.Height, v.Round, types.VoteTypePrevote, v.BlockID.Key())*3 <= ref.total*2 {
			w.violate("C04", "precommit-without-polka", "precommit", "validator %d precommitted %X in h=%d r=%d having been given prevotes for it from only %d of %d voting power", node, fp(v.BlockID.Hash), v.Height, v.Round,
				l.powerFor(ref, v.Height, v.Round, types.VoteTypePrevote, v.BlockID.Key()), ref.total)
		}
		if !ls.bound || v.Round >= ls.round {
			ls.bound, ls.blockKey, ls.psh, ls.hash, ls.round = true, v.BlockID.Key(), v.BlockID.PartsHeader, v.BlockID.Hash, v.Round
		}
	case types.VoteTypePrevote:
		w.Evals.Inc("C04.prevote")
		if !ls.bound || v.Round <= ls.round {
			return
		}
		w.Probes.Inc("prevote_while_bound")
		if v.BlockID.Key() == ls.blockKey {
			return
		}
		if w.polkaForOther(node, ls, ls.round, v.Round) {
			ls.bound = false
			w.Probes.Inc("unlock_by_polka")
			return
		}
		w.violate("C04", "prevote-against-lock", "prevote", "validator %d precommitted %X in round %d but prevoted %X in round %d of height %d without a later polka for anything else", node, fp(ls.hash), ls.round, fp(v.BlockID.Hash), v.Round, v.Height)
	}
}

func (w *World) onOwnProposal(node int, p *types.Proposal) {
	if !w.enabled("C04") {
		return
	}
	ls := w.lockOf(node, p.Height)
	w.Evals.Inc("C04.proposal")
	if !ls.bound || p.Round <= ls.round {
		return
	}
	w.Probes.Inc("propose_while_bound")
	if p.BlockPartsHeader.Equals(ls.psh) {
		return
	}
	if w.polkaForOther(node, ls, ls.round, p.Round) {
		ls.bound = false
		return
	}
	w.violate("C04", "propose-against-lock", "proposal", "validator %d precommitted %X in round %d but proposed parts %X in round %d of height %d", node, fp(ls.hash), ls.round, fp(p.BlockPartsHeader.Hash), p.Round, p.Height)
}

// ---------------------------------------------------------------------------
// C15 in vivo: no reported majority without the votes for it.

type voteAcctOracle struct{}

func (o *voteAcctOracle) AfterStep(w *World, vs []*view) {
	if !w.enabled("C15") {
		return
	}
	for _, v := range vs {
		rs := v.rs
		if rs.Votes == nil {
			continue
		}
		ref := w.RefVals(rs.Height)
		if ref == nil {
			continue
		}
		l := w.nodeLedger(v.nd.id)
		for r := int64(0); r <= rs.Votes.Round(); r++ {
			for _, t := range []byte{types.VoteTypePrevote, types.VoteTypePrecommit} {
				var set *types.VoteSet
				if t == types.VoteTypePrevote {
					set = rs.Votes.Prevotes(r)
				} else {
					set = rs.Votes.Precommits(r)
				}
				if set == nil {
					continue
				}
				w.Evals.Inc("C15.voteset")
				if id, ok := set.TwoThirdsMajority(); ok {
					if l.powerFor(ref, rs.Height, r, t, id.Key())*3 <= ref.total*2 {
						w.violate("C15", "false-majority", fmt.Sprintf("t%d", t), "node %d reports a +2/3 majority for %X at h=%d r=%d type=%d but was offered valid votes for it from only %d of %d voting power", v.nd.id, fp(id.Hash), rs.Height, r, t,
							l.powerFor(ref, rs.Height, r, t, id.Key()), ref.total)
					}
					key := fmt.Sprintf("%d/%d/%d/%d", v.nd.id, rs.Height, r, t)
					if w.maj == nil {
						w.maj = map[string]string{}
					}
					if old, seen := w.maj[key]; seen && old != id.Key() {
						w.violate("C15", "majority-changed", fmt.Sprintf("t%d", t), "node %d: reported majority at h=%d r=%d type=%d changed", v.nd.id, rs.Height, r, t)
					}
					w.maj[key] = id.Key()
					if t == types.VoteTypePrecommit && len(id.Hash) != 0 {
						w.Evals.Inc("C15.makecommit")
						if err := w.verifyCommit(rs.Height, id, set.MakeCommit()); err != nil {
							w.violate("C15", "commit-from-majority-invalid", "makecommit", "node %d: commit assembled from the majority at h=%d r=%d fails verification: %v", v.nd.id, rs.Height, r, err)
						}
					}
				}
				// ---- the converse: what the set itself holds (one vote per validator slot) and does not report
				held := map[string]int64{}
				var heldAny int64
				for i := 0; i < set.Size() && i < len(ref.vals); i++ {
					if vt := set.GetByIndex(i); vt != nil {
						if _, ok := w.validVote(vt); ok {
							held[vt.BlockID.Key()] += ref.vals[i].power
							heldAny += ref.vals[i].power
						}
					}
				}
				w.Evals.Inc("C15.converse")
				for bk, p := range held {
					if p*3 > ref.total*2 {
						if id, ok := set.TwoThirdsMajority(); !ok || id.Key() != bk {
							w.violate("C15", "majority-not-reported", fmt.Sprintf("t%d", t), "node %d holds valid votes of %d of %d voting power for one block at h=%d r=%d type=%d, yet its vote set reports no +2/3 majority for it", v.nd.id, p, ref.total, rs.Height, r, t)
						}
					}
				}
				if heldAny*3 > ref.total*2 && !set.HasTwoThirdsAny() {
					w.violate("C15", "any-majority-not-reported", fmt.Sprintf("t%d", t), "node %d holds valid votes of %d of %d voting power at h=%d r=%d type=%d, yet its vote set does not report +2/3 of any", v.nd.id, heldAny, ref.total, rs.Height, r, t)
				}
				if set.HasTwoThirdsAny() && l.powerAny(ref, rs.Height, r, t)*3 <= ref.total*2 {
					w.violate("C15", "false-any-majority", fmt.Sprintf("t%d", t), "node %d reports +2/3 of any votes at h=%d r=%d type=%d but distinct validators seen hold %d of %d", v.nd.id, rs.Height, r, t, l.powerAny(ref, rs.Height, r, t), ref.total)
				}
			}
		}
	}
}

// ---------------------------------------------------------------------------
// C16 in vivo: replicas agree on the proposer of every (height, round) and on the set.

type proposerOracle struct {
	reloaded map[[2]int64]map[int][]byte
	props    map[[2]int64][]byte
	valHash  map[int64][]byte
}

func (o *proposerOracle) AfterStep(w *World, vs []*view) {
	if !w.enabled("C16") {
		return
	}
	for _, v := range vs {
		rs := v.rs
		if rs.Validators == nil || rs.Validators.Size() == 0 || rs.Step == pbft.RoundStepNewHeight && rs.Round != 0 {
			continue
		}
		w.Evals.Inc("C16.proposer")
		k := [2]int64{rs.Height, rs.Round}
		p := rs.Validators.Proposer().Address
		// an incarnation that loaded its validator set from the state database and is
		// still in round 0 of the height it started at computes the proposer from the
		// persisted accumulators alone; it is compared under a key of its own
		reloaded := v.nd.inc.gen > 1 && rs.Round == 0 && v.nd.inc.startHeight == rs.Height
		if reloaded {
			w.Probes.Inc("proposer_after_reload_compared")
			if o.reloaded == nil {
				o.reloaded = map[[2]int64]map[int][]byte{}
			}
			if o.reloaded[k] == nil {
				o.reloaded[k] = map[int][]byte{}
			}
			o.reloaded[k][v.nd.id] = p
		} else if old, ok := o.props[k]; !ok {
			o.props[k] = p
			if rs.Round == 0 {
				w.cleanProp[rs.Height] = p
			}
		} else if !bytes.Equal(old, p) {
			w.violate("C16", "proposer-disagreement", "live", "height %d round %d: node %d (incarnation %d, started at height %d) computes proposer %X, another replica computed %X; its accumulators: %s", rs.Height, rs.Round, v.nd.id, v.nd.inc.gen, v.nd.inc.startHeight, fp(p), fp(old), describeAccum(rs.Validators))
		}
		if clean, ok := o.props[k]; ok {
			for id, rp := range o.reloaded[k] {
				if !bytes.Equal(clean, rp) {
					w.violate("C16", "proposer-disagreement", "round0-after-reload", "height %d round %d: node %d, restarted from its state database, computes proposer %X while replicas that did not restart computed %X", rs.Height, rs.Round, id, fp(rp), fp(clean))
				}
			}
		}
		// sorted, duplicate free
		var prev []byte
		for i, val := range rs.Validators.Validators {
			if i > 0 && bytes.Compare(prev, val.Address) >= 0 {
				w.violate("C16", "valset-unsorted", "sorted", "node %d: validator set at height %d is not strictly sorted by address", v.nd.id, rs.Height)
			}
			prev = val.Address
		}
		// the set every replica starts a height with
		if rs.Round == 0 {
			st := w.DiskState(v.nd)
			if st != nil && st.LastBlockHeight+1 == rs.Height {
				h := st.Validators.Hash()
				if old, ok := o.valHash[rs.Height]; !ok {
					o.valHash[rs.Height] = h
				} else if !bytes.Equal(old, h) {
					w.violate("C16", "valset-hash-disagreement", "hash", "height %d: node %d holds validator-set hash %X, another replica %X", rs.Height, v.nd.id, fp(h), fp(old))
				}
				if ref := w.RefVals(rs.Height); ref != nil {
					if !sameMembers(ref, st.Validators) {
						w.violate("C16", "valset-membership", "members", "height %d: node %d's validator set differs from the reference history: %s", rs.Height, v.nd.id, describeSet(st.Validators))
					}
				}
			}
		}
	}
}

func sameMembers(ref *refSet, vs *types.ValidatorSet) bool {
	if len(ref.vals) != len(vs.Validators) {
		return false
	}
	for i, rv := range ref.vals {
		if !bytes.Equal(rv.addr, vs.Validators[i].Address) || rv.power != vs.Validators[i].VotingPower {
			return false
		}
	}
	return true
}

func describeSet(vs *types.ValidatorSet) string {
	var sb strings.Builder
	for _, v := range vs.Validators {
		sb.WriteString(fmt.Sprintf("%X:%d ", fp(v.Address), v.VotingPower))
	}
	return sb.String()
}

func describeAccum(vs *types.ValidatorSet) string {
	var sb strings.Builder
	for _, v := range vs.Validators {
		sb.WriteString(fmt.Sprintf("%X:%d/%d ", fp(v.Address), v.VotingPower, v.Accum))
	}
	return sb.String()
}

//go:debug randseednop=0

package csim

import (
	"encoding/json"
	"fmt"
	"os"
	"strconv"
	"strings"
	"testing"
	"time"

	"verif/simrt"
)

// profileFor maps a property to the swarm profile its check uses.
func profileFor(prop string) string {
	switch prop {
	case "C07":
		return "wal"
	case "C06":
		return "crash"
	}
	return ""
}

type runOut struct {
	w   *World
	rp  interface{}
	sim time.Duration
}

func runOnce(t *testing.T, cfg Config, target string, known map[string]bool, replay []simrt.Action, tweak func(*World)) runOut {
	var out runOut
	out.rp = simrt.Bubble(t, func() {
		w := NewWorld(t, cfg)
		out.w = w
		w.Target = target
		w.Known = known
		if tweak != nil {
			tweak(w)
		}
		defer w.Close()
		defer func() { out.sim = w.Now() }()
		w.Run(replay)
	})
	return out
}

func hasViolation(w *World, v simrt.Violation) bool {
	for _, o := range w.Violations {
		if o.Property == v.Property && o.Oracle == v.Oracle && o.Key == v.Key {
			return true
		}
	}
	return false
}

func knownSet() map[string]bool {
	m := map[string]bool{}
	for _, k := range strings.Split(os.Getenv("VERIF_KNOWN"), ",") {
		if k = strings.TrimSpace(k); k != "" {
			m[k] = true
		}
	}
	return m
}

func tweakFor(prop string) func(*World) {
	return func(w *World) { configureFor(w, prop) }
}

// TestWorker runs a slice of a batch and appends one JSON line per run to VERIF_OUT.
func TestWorker(t *testing.T) {
	mode := os.Getenv("VERIF_MODE")
	if mode == "" {
		t.Skip("worker: VERIF_MODE not set")
	}
	prop := os.Getenv("VERIF_PROP")
	known := knownSet()
	outPath := os.Getenv("VERIF_OUT")
	if mode == "replay" {
		var rp simrt.Replay
		if err := simrt.ReadJSON(os.Getenv("VERIF_REPLAY"), &rp); err != nil {
			fmt.Println("REPLAY-ERROR", err)
			os.Exit(2)
		}
		var cfg Config
		json.Unmarshal(rp.Config, &cfg)
		o := runOnce(t, cfg, rp.Property, nil, rp.Actions, tweakFor(rp.Property))
		res := map[string]interface{}{"log_hash": o.w.Log.Hash(), "violations": o.w.Violations, "steps": o.w.Step}
		if o.rp != nil {
			res["root_panic"] = fmt.Sprint(o.rp)
		}
		reproduced := rp.Violation != nil && hasViolation(o.w, *rp.Violation)
		res["reproduced"] = reproduced
		b, _ := json.MarshalIndent(res, "", " ")
		fmt.Println(string(b))
		if outPath != "" {
			os.WriteFile(outPath, b, 0644)
		}
		return
	}
	base := uint64(envInt("VERIF_SEED", 1))
	from, to := envInt("VERIF_FROM", 0), envInt("VERIF_TO", 1)
	deadline := time.Now().Add(time.Duration(envInt("VERIF_BUDGET_S", 3600)) * time.Second)
	f, err := os.OpenFile(outPath, os.O_CREATE|os.O_WRONLY|os.O_APPEND, 0644)
	if err != nil {
		fmt.Println("WORKER-ERROR", err)
		os.Exit(2)
	}
	defer f.Close()
	enc := json.NewEncoder(f)
	for i := from; i < to; i++ {
		if time.Now().After(deadline) {
			break
		}
		seed := simrt.Mix(base, prop, uint64(i))
		if es := os.Getenv("VERIF_EXACT_SEED"); es != "" {
			seed, _ = strconv.ParseUint(es, 10, 64)
		}
		cfg := DrawConfig(seed, profileFor(prop))
		adjustConfigFor(&cfg, prop, seed)
		fmt.Fprintf(os.Stderr, "run %d seed %d\n", i, seed)
		o := runOnce(t, cfg, prop, known, nil, tweakFor(prop))
		w := o.w
		res := simrt.RunResult{Seed: seed, Index: i, Steps: w.Step, SimSeconds: o.sim.Seconds(), Faults: w.Faults, Probes: w.Probes,
			States: sortedKeysB(w.States), TraceHash: simrt.HashActions(w.Actions), LogHash: w.Log.Hash(), OracleEval: w.Evals}
		nf := 0
		for _, n := range w.Faults {
			nf += n
		}
		ne := 0
		for k, n := range w.Evals {
			if strings.HasPrefix(k, prop+".") {
				ne += n
			}
		}
		res.Nontrivial = nf > 0 && ne > 0 && w.Probes["commit_observed"] > 0
		if o.rp != nil {
			res.Extra = map[string]string{"root_panic": fmt.Sprint(o.rp)}
		}
		if i-from < 2 {
			acts := w.Actions
			if len(acts) > 40 {
				acts = acts[:40]
			}
			strs := make([]string, len(acts))
			for j, a := range acts {
				strs[j] = a.String()
			}
			sm, _ := json.Marshal(map[string]interface{}{"seed": seed, "validators": cfg.N, "powers": cfg.Powers, "byzantine": cfg.Byz, "steps": w.Step, "first_actions": strs})
			res.Sample = sm
		}
		for _, v := range w.Violations {
			kk := v.Property + "/" + v.Oracle + "/" + v.Key
			if v.Property != prop && !known[kk] {
				// violations of other properties are reported by their own checks
				if res.Extra == nil {
					res.Extra = map[string]string{}
				}
				res.Extra["other:"+kk] = v.Msg
				continue
			}
			res.Violations = append(res.Violations, v)
			if known[kk] || res.Replay != nil {
				continue
			}
			// minimise, then verify the minimised list twice
			acts := append([]simrt.Action(nil), w.Actions...)
			vv := v
			test := func(cand []simrt.Action) bool {
				c := runOnce(t, cfg, prop, nil, cand, tweakFor(prop))
				return c.w != nil && hasViolation(c.w, vv)
			}
			min := acts
			if os.Getenv("VERIF_MINIMIZE") != "0" && test(acts) {
				min, _ = simrt.DDMin(acts, envInt("VERIF_DDMIN_BUDGET", 120), test)
			}
			a := runOnce(t, cfg, prop, nil, min, tweakFor(prop))
			b := runOnce(t, cfg, prop, nil, min, tweakFor(prop))
			note := ""
			if !(hasViolation(a.w, vv) && hasViolation(b.w, vv) && a.w.Log.Hash() == b.w.Log.Hash()) {
				note = "WARNING: minimised trace did not reproduce identically twice; full trace kept"
				min = acts
			}
			res.Replay = &simrt.Replay{Engine: "csim", Property: prop, Seed: seed, Config: cfg.JSON(), Actions: min, Violation: &vv, LogHash: a.w.Log.Hash(), Note: note}
		}
		enc.Encode(res)
	}
}

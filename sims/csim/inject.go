package csim

import (
	"bytes"
	"fmt"
	"math"

	"github.com/dappledger/AnnChain/gemmill/consensus/pbft"
	"github.com/dappledger/AnnChain/gemmill/go-wire"
	gcmn "github.com/dappledger/AnnChain/gemmill/modules/go-common"
	merkle "github.com/dappledger/AnnChain/gemmill/modules/go-merkle"
	"github.com/dappledger/AnnChain/gemmill/types"

	"verif/simrt"
)

// Adversarial peer input (C08, consensus-goroutine half of C17): one real
// in-flight message with one field set to a boundary or hostile value, or raw
// bytes. Delivered through the real reactor Receive as any connected peer could.

var injectKinds = []string{
	"vote-idx-neg", "vote-idx-big", "vote-addr-nil", "vote-h0", "vote-hprev", "vote-hnext", "vote-hmax", "vote-r-neg", "vote-r-big", "vote-type0", "vote-type3",
	"vote-sig-nil", "vote-sig-bad", "vote-blockid-garbage", "vote-nil",
	"prop-nil", "prop-pol-big", "prop-pol-neg2", "prop-total-neg", "prop-total-huge", "prop-sig-nil", "prop-h-wrong", "prop-r-wrong", "prop-hash-nil",
	"part-nil", "part-idx-neg", "part-idx-big", "part-bytes", "part-aunt", "part-h-wrong", "part-proof-nil",
	"nrs-neg", "nrs-big", "nrs-step0", "nrs-match", "nrs-match", "nrs-match", "commitstep-bits", "commitstep-total-neg", "hasvote-neg", "hasvote-big", "hasvote-type0",
	"maj23-garbage", "maj23-type0", "maj23-r-neg", "maj23-r-big", "bits-mismatch", "bits-nil", "bits-huge", "bits-r-neg", "bits-type-bad", "pol-neg", "pol-huge",
	"vote-r-stream", "vote-r-stream",
	"raw-empty", "raw-1byte", "raw-trunc", "raw-flip", "raw-random", "raw-lenprefix", "wrong-channel", "unknown-channel",
}

func drawInject(w *World, live []*Node) (simrt.Action, bool) {
	nd := live[w.Rng.Intn(len(live))]
	kind := injectKinds[w.Rng.Intn(len(injectKinds))]
	return simrt.Action{K: "inject", N: nd.id, S: kind, A: int64(w.Rng.Intn(1 << 20)), B: int64(w.Rng.Intn(len(w.vals)))}, true
}

func enc(msg pbft.ConsensusMessage) []byte {
	return wire.BinaryBytes(struct{ pbft.ConsensusMessage }{msg})
}

// baseVote returns a real vote of the target's height if one exists, else a fabricated one.
func (w *World) baseVote(rs *pbft.RoundState, sel int64) *types.Vote {
	var cands []*Item
	for _, it := range w.pool.byH[rs.Height] {
		if it.Kind == kVote && it.Bad == "" {
			cands = append(cands, it)
		}
	}
	if len(cands) > 0 {
		return cands[int(sel)%len(cands)].Vote.Copy()
	}
	v := w.vals[int(sel)%len(w.vals)]
	idx := 0
	if ref := w.RefVals(rs.Height); ref != nil {
		if i := ref.indexOf(v.addr); i >= 0 {
			idx = i
		}
	}
	return w.signVote(v, idx, rs.Height, rs.Round, types.VoteTypePrevote, types.BlockID{})
}

func (w *World) baseProposal(rs *pbft.RoundState, sel int64) (*types.Proposal, *valInfo) {
	for _, it := range w.pool.byH[rs.Height] {
		if it.Kind == kProposal && it.R == rs.Round && it.Signer >= 0 {
			c := *it.Prop
			return &c, w.vals[it.Signer]
		}
	}
	pid := w.proposerID(rs)
	if pid < 0 {
		pid = 0
	}
	v := w.vals[pid]
	h := bytes.Repeat([]byte{byte(sel)}, 20)
	p := types.NewProposal(rs.Height, rs.Round, types.PartSetHeader{Total: 1, Hash: h}, -1, types.BlockID{})
	p.Signature = v.key.Sign(types.SignBytes(ChainID, p))
	return p, v
}

func (w *World) basePart(rs *pbft.RoundState, sel int64) (*types.Part, int64) {
	var cands []*Item
	for _, it := range w.pool.byH[rs.Height] {
		if it.Kind == kPart && it.Bad == "" {
			cands = append(cands, it)
		}
	}
	if len(cands) > 0 {
		o := cands[int(sel)%len(cands)].Part
		return &types.Part{Index: o.Index, Bytes: append([]byte{}, o.Bytes...), Proof: merkle.SimpleProof{Aunts: append([][]byte{}, o.Proof.Aunts...)}}, rs.Height
	}
	return &types.Part{Index: 0, Bytes: []byte("x")}, rs.Height
}

// injector is installed as World.Injector for C08 runs.
func injector(w *World, a simrt.Action) bool {
	nd := w.node(a.N)
	if nd == nil || !nd.inc.Alive() {
		return false
	}
	inc := nd.inc
	rs := w.Snapshot(inc)
	if rs == nil {
		return false
	}
	before := Digest(rs)
	ch := pbft.VoteChannel
	var bz []byte
	signedByProposer := false
	h, r := rs.Height, rs.Round
	sel := a.A
	switch a.S {
	// ---- votes
	case "vote-idx-neg", "vote-idx-big", "vote-addr-nil", "vote-h0", "vote-hprev", "vote-hnext", "vote-hmax", "vote-r-neg", "vote-r-big", "vote-type0", "vote-type3", "vote-sig-nil", "vote-sig-bad", "vote-blockid-garbage":
		v := w.baseVote(rs, sel)
		switch a.S {
		case "vote-idx-neg":
			v.ValidatorIndex = -1 - int(sel%3)
		case "vote-idx-big":
			v.ValidatorIndex = []int{len(w.vals), len(w.vals) + 1, math.MaxInt32, math.MaxInt64}[sel%4]
		case "vote-addr-nil":
			v.ValidatorAddress = nil
		case "vote-h0":
			v.Height = 0
			v.Type = types.VoteTypePrecommit
		case "vote-hprev":
			v.Height = h - 1
			v.Type = types.VoteTypePrecommit
		case "vote-hnext":
			v.Height = h + 1
		case "vote-hmax":
			v.Height = []int64{math.MaxInt64, -1, math.MinInt64}[sel%3]
		case "vote-r-neg":
			v.Round = -1 - sel%3
		case "vote-r-big":
			v.Round = []int64{r + 1000, math.MaxInt64, math.MaxInt32}[sel%3]
		case "vote-type0":
			v.Type = 0
		case "vote-type3":
			v.Type = []byte{3, 255, 0x10}[sel%3]
		case "vote-sig-nil":
			v.Signature = nil
		case "vote-sig-bad":
			v.Signature = w.vals[int(a.B)%len(w.vals)].key.Sign([]byte("something else"))
		case "vote-blockid-garbage":
			v.BlockID = types.BlockID{Hash: bytes.Repeat([]byte{0xee}, int(sel%70)), PartsHeader: types.PartSetHeader{Total: int(sel%5) - 2, Hash: []byte{1}}}
		}
		bz = enc(&pbft.VoteMessage{Vote: v})
	case "vote-r-stream":
		// one peer, a run of votes for rounds nobody tracks, each rejected (signature over another round):
		// rejected votes must not make the node keep state for ever more rounds
		before := rs.Votes.VerifNumRounds()
		src := int(a.B) % len(w.vals)
		peer := inc.peers[src]
		if peer == nil {
			return false
		}
		inc.untrusted++
		w.Faults.Inc("inject:" + a.S)
		for i := int64(0); i < 12; i++ {
			v := w.baseVote(rs, sel+i)
			v.Height = h
			v.Round = rs.Votes.Round() + 3 + i*7 + sel%5
			msg := enc(&pbft.VoteMessage{Vote: v})
			w.call(inc, "receive-injected", func() {
				defer func() { recover() }()
				inc.conR.Receive(pbft.VoteChannel, peer, msg)
			})
		}
		w.Evals.Inc("C08.injection")
		if rs2 := w.Snapshot(inc); rs2 != nil && rs2.Height == h && inc.Alive() {
			after := rs2.Votes.VerifNumRounds()
			if after > before+2 {
				w.violate("C08", "rejected-votes-grow-state", a.S, "12 rejected votes of one peer for untracked rounds made node %d track %d rounds instead of %d (a peer may open at most two catch-up rounds)", nd.id, after, before)
			}
		}
		return true
	case "vote-nil":
		bz = enc(&pbft.VoteMessage{})
	// ---- proposals
	case "prop-nil":
		ch, bz = pbft.DataChannel, enc(&pbft.ProposalMessage{})
	case "prop-pol-big", "prop-pol-neg2", "prop-total-neg", "prop-total-huge", "prop-sig-nil", "prop-h-wrong", "prop-r-wrong", "prop-hash-nil":
		ch = pbft.DataChannel
		p, signer := w.baseProposal(rs, sel)
		switch a.S {
		case "prop-pol-big":
			p.POLRound = []int64{r, r + 1, math.MaxInt64}[sel%3]
		case "prop-pol-neg2":
			p.POLRound = -2 - sel%3
		case "prop-total-neg":
			p.BlockPartsHeader.Total = -1 - int(sel%3)
		case "prop-total-huge":
			p.BlockPartsHeader.Total = []int{1 << 20, 1 << 26, math.MaxInt32, 1 << 40}[sel%4]
		case "prop-sig-nil":
			p.Signature = nil
		case "prop-h-wrong":
			p.Height = []int64{0, -1, h + 1, math.MaxInt64}[sel%4]
		case "prop-r-wrong":
			p.Round = []int64{-1, r + 1, math.MaxInt64}[sel%3]
		case "prop-hash-nil":
			p.BlockPartsHeader.Hash = nil
		}
		// a Byzantine proposer can sign whatever it likes: re-sign when the key is ours to use
		if signer != nil && signer.byz && a.S != "prop-sig-nil" {
			p.Signature = signer.key.Sign(types.SignBytes(ChainID, p))
			signedByProposer = true
		}
		bz = enc(&pbft.ProposalMessage{Proposal: p})
	// ---- parts
	case "part-nil":
		ch, bz = pbft.DataChannel, enc(&pbft.BlockPartMessage{Height: h, Round: r})
	case "part-idx-neg", "part-idx-big", "part-bytes", "part-aunt", "part-h-wrong", "part-proof-nil":
		ch = pbft.DataChannel
		p, ph := w.basePart(rs, sel)
		switch a.S {
		case "part-idx-neg":
			p.Index = []int{-1, -2, math.MinInt64, math.MinInt32}[sel%4]
		case "part-idx-big":
			p.Index = []int{1 << 20, math.MaxInt32, math.MaxInt64, 100}[sel%4]
		case "part-bytes":
			if len(p.Bytes) > 0 {
				p.Bytes[int(sel)%len(p.Bytes)] ^= 0x40
			} else {
				p.Bytes = []byte{1}
			}
		case "part-aunt":
			p.Proof.Aunts = append(p.Proof.Aunts, bytes.Repeat([]byte{9}, 20))
		case "part-h-wrong":
			ph = []int64{0, -1, h + 1, math.MaxInt64}[sel%4]
		case "part-proof-nil":
			p.Proof = merkle.SimpleProof{}
			p.Bytes = append(p.Bytes, 1)
		}
		bz = enc(&pbft.BlockPartMessage{Height: ph, Round: r, Part: p})
	// ---- peer-state messages
	case "nrs-neg":
		ch, bz = pbft.StateChannel, enc(&pbft.NewRoundStepMessage{Height: []int64{-1, h, 0}[sel%3], Round: -1 - sel%3, Step: pbft.RoundStepPrevote, SecondsSinceStartTime: -5, LastCommitRound: -7})
	case "nrs-big":
		ch, bz = pbft.StateChannel, enc(&pbft.NewRoundStepMessage{Height: []int64{h, h + 1, math.MaxInt64}[sel%3], Round: []int64{r + 1, math.MaxInt64, 1 << 40}[(sel/3)%3], Step: pbft.RoundStepType(sel % 12), SecondsSinceStartTime: math.MaxInt32, LastCommitRound: math.MaxInt64})
	case "nrs-match":
		// a perfectly plausible announcement: "I am where you are" - it makes the peer-state
		// bookkeeping in Receive act on the later messages of this peer
		ch, bz = pbft.StateChannel, enc(&pbft.NewRoundStepMessage{Height: h, Round: r, Step: pbft.RoundStepPropose, LastCommitRound: 0})
	case "nrs-step0":
		ch, bz = pbft.StateChannel, enc(&pbft.NewRoundStepMessage{Height: h, Round: r, Step: 0})
	case "commitstep-bits":
		ch, bz = pbft.StateChannel, enc(&pbft.CommitStepMessage{Height: h, BlockPartsHeader: types.PartSetHeader{Total: 3, Hash: []byte{1, 2}}, BlockParts: &gcmn.BitArray{Bits: int(sel % 1000), Elems: nil}})
	case "commitstep-total-neg":
		ch, bz = pbft.StateChannel, enc(&pbft.CommitStepMessage{Height: h, BlockPartsHeader: types.PartSetHeader{Total: -1}, BlockParts: nil})
	case "hasvote-neg":
		ch, bz = pbft.StateChannel, enc(&pbft.HasVoteMessage{Height: h, Round: []int64{r, -1}[sel%2], Type: types.VoteTypePrevote, Index: -1 - int(sel%3)})
	case "hasvote-big":
		ch, bz = pbft.StateChannel, enc(&pbft.HasVoteMessage{Height: h, Round: []int64{r, math.MaxInt64}[sel%2], Type: types.VoteTypePrecommit, Index: []int{len(w.vals), math.MaxInt32, math.MaxInt64}[sel%3]})
	case "hasvote-type0":
		ch, bz = pbft.StateChannel, enc(&pbft.HasVoteMessage{Height: h, Round: r, Type: byte(sel % 7 * 40), Index: 0})
	case "maj23-garbage":
		ch, bz = pbft.StateChannel, enc(&pbft.VoteSetMaj23Message{Height: h, Round: r, Type: types.VoteTypePrevote, BlockID: types.BlockID{Hash: bytes.Repeat([]byte{byte(sel)}, int(sel%64)), PartsHeader: types.PartSetHeader{Total: int(sel%7) - 3, Hash: []byte{byte(sel)}}}})
	case "maj23-type0":
		ch, bz = pbft.StateChannel, enc(&pbft.VoteSetMaj23Message{Height: h, Round: r, Type: byte(sel % 5 * 60)})
	case "maj23-r-neg":
		ch, bz = pbft.StateChannel, enc(&pbft.VoteSetMaj23Message{Height: h, Round: -1 - sel%4, Type: types.VoteTypePrecommit})
	case "maj23-r-big":
		ch, bz = pbft.StateChannel, enc(&pbft.VoteSetMaj23Message{Height: h, Round: []int64{r + 5, math.MaxInt64, 1 << 33}[sel%3], Type: types.VoteTypePrevote})
	case "bits-mismatch":
		ch, bz = pbft.VoteSetBitsChannel, enc(&pbft.VoteSetBitsMessage{Height: h, Round: r, Type: types.VoteTypePrevote, Votes: gcmn.NewBitArray(1 + int(sel%200))})
	case "bits-nil":
		ch, bz = pbft.VoteSetBitsChannel, enc(&pbft.VoteSetBitsMessage{Height: []int64{h, h - 1}[sel%2], Round: r, Type: types.VoteTypePrecommit})
	case "bits-huge":
		ch, bz = pbft.VoteSetBitsChannel, enc(&pbft.VoteSetBitsMessage{Height: []int64{h, h - 1}[sel%2], Round: r, Type: types.VoteTypePrevote, Votes: &gcmn.BitArray{Bits: []int{1 << 20, 1 << 30, -5}[sel%3], Elems: []uint64{1, 2, 3}}})
	case "bits-r-neg":
		ch, bz = pbft.VoteSetBitsChannel, enc(&pbft.VoteSetBitsMessage{Height: h, Round: -1 - sel%3, Type: types.VoteTypePrevote, Votes: gcmn.NewBitArray(len(w.vals))})
	case "bits-type-bad":
		ch, bz = pbft.VoteSetBitsChannel, enc(&pbft.VoteSetBitsMessage{Height: h, Round: r, Type: []byte{0, 3, 0x7f, 0xff}[sel%4], Votes: gcmn.NewBitArray(len(w.vals))})
	case "pol-neg":
		ch, bz = pbft.DataChannel, enc(&pbft.ProposalPOLMessage{Height: h, ProposalPOLRound: -1 - sel%3, ProposalPOL: &gcmn.BitArray{Bits: -3}})
	case "pol-huge":
		ch, bz = pbft.DataChannel, enc(&pbft.ProposalPOLMessage{Height: h, ProposalPOLRound: math.MaxInt64, ProposalPOL: &gcmn.BitArray{Bits: 1 << 30, Elems: []uint64{7}}})
	// ---- bytes
	case "raw-empty":
		bz = []byte{}
	case "raw-1byte":
		ch, bz = []byte{pbft.StateChannel, pbft.DataChannel, pbft.VoteChannel, pbft.VoteSetBitsChannel}[sel%4], []byte{byte(sel / 4)}
	case "raw-trunc", "raw-flip", "raw-lenprefix":
		v := w.baseVote(rs, sel)
		full := enc(&pbft.VoteMessage{Vote: v})
		switch a.S {
		case "raw-trunc":
			bz = full[:int(sel)%len(full)]
		case "raw-flip":
			bz = append([]byte{}, full...)
			bz[int(sel)%len(bz)] ^= 1 << uint(sel%8)
		case "raw-lenprefix":
			// type byte, then a varint length prefix claiming an absurd size
			bz = append([]byte{full[0]}, 0x08, 0x7f, 0xff, 0xff, 0xff, 0xff, 0xff, 0xff, 0xff)
			bz = append(bz, full[1:]...)
		}
	case "raw-random":
		rr := simrt.NewRand(uint64(sel)*7919 + uint64(a.B))
		ch, bz = []byte{pbft.StateChannel, pbft.DataChannel, pbft.VoteChannel, pbft.VoteSetBitsChannel}[sel%4], rr.Bytes(1+rr.Intn(300))
	case "wrong-channel":
		v := w.baseVote(rs, sel)
		ch, bz = []byte{pbft.StateChannel, pbft.DataChannel, pbft.VoteSetBitsChannel}[sel%3], enc(&pbft.VoteMessage{Vote: v})
	case "unknown-channel":
		ch, bz = byte(0x77), enc(&pbft.HasVoteMessage{Height: h})
	default:
		return false
	}
	src := int(a.B) % len(w.vals)
	peer := inc.peers[src]
	if peer == nil {
		for _, id := range sortedPeerIDs(inc) {
			peer = inc.peers[id]
			break
		}
	}
	if peer == nil {
		return false
	}
	inc.untrusted++
	recovered := false
	w.Faults.Inc("inject:" + a.S)
	ok := w.call(inc, "receive-injected", func() {
		defer func() {
			if rec := recover(); rec != nil {
				if inc.life.Dead() {
					panic(rec)
				}
				recovered = true
			}
		}()
		inc.conR.Receive(ch, peer, bz)
	})
	if recovered {
		w.Probes.Inc("receive_panic_recovered(peer would be dropped)")
		for id, p := range inc.peers {
			if p == peer {
				w.reconnect(inc, id)
			}
		}
	}
	w.Evals.Inc("C08.injection")
	if !ok && inc.Alive() {
		w.Probes.Inc("receive_blocked")
	}
	if !inc.Alive() {
		return true // death is reported by afterStep
	}
	if signedByProposer {
		w.Probes.Inc("inject_signed_by_byzantine_proposer")
		return true
	}
	if rs2 := w.Snapshot(inc); rs2 != nil {
		if after := Digest(rs2); after != before {
			w.violate("C08", "invalid-message-changed-state", a.S, "an invalid message (%s) from a peer changed the consensus state of node %d:\n  before %s\n  after  %s", a.S, nd.id, before, after)
		}
	}
	return true
}

func init() {
	configurers = append(configurers, func(w *World, prop string) {
		if prop == "C08" {
			w.Injector = injector
			w.DrawInject = drawInject
		}
	})
}

var _ = fmt.Sprintf

package csim

import (
	_ "unsafe"
)

// runtime.nanotime is the monotonic real clock even inside a synctest bubble
// (time.Now is faked there). It is used for watchdogs only.
//
//go:linkname realNanos runtime.nanotime
func realNanos() int64

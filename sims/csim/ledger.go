package csim

import (
	"bytes"
	"fmt"
	"sort"

	"github.com/dappledger/AnnChain/gemmill/types"
)

// ---------------------------------------------------------------------------
// Reference validator sets (harness model; shares no code with types.ValidatorSet)

type refVal struct {
	id    int
	addr  []byte
	power int64
}

type refSet struct {
	vals  []refVal // sorted by address
	total int64
}

func (s *refSet) indexOf(addr []byte) int {
	for i, v := range s.vals {
		if bytes.Equal(v.addr, addr) {
			return i
		}
	}
	return -1
}

func (w *World) genesisRef() *refSet {
	s := &refSet{}
	for _, v := range w.vals {
		s.vals = append(s.vals, refVal{v.id, v.addr, v.power})
		s.total += v.power
	}
	return s
}

func (s *refSet) apply(w *World, txs []types.Tx) *refSet {
	n := &refSet{vals: append([]refVal(nil), s.vals...)}
	for _, tx := range txs {
		id, power, ok := parseValTx(tx)
		if !ok || id < 0 || id >= len(w.vals) {
			continue
		}
		addr := w.vals[id].addr
		i := n.indexOf(addr)
		switch {
		case power == 0 && i >= 0:
			n.vals = append(n.vals[:i:i], n.vals[i+1:]...)
		case power > 0 && i >= 0:
			n.vals[i].power = power
		case power > 0 && i < 0:
			n.vals = append(n.vals, refVal{id, addr, power})
			sort.Slice(n.vals, func(a, b int) bool { return bytes.Compare(n.vals[a].addr, n.vals[b].addr) < 0 })
		}
	}
	for _, v := range n.vals {
		n.total += v.power
	}
	return n
}

// RefVals returns the reference validator set in force at height h (nil if the
// chain has not been decided up to h-1 yet).
func (w *World) RefVals(h int64) *refSet {
	if w.refSets == nil {
		w.refSets = map[int64]*refSet{1: w.genesisRef()}
	}
	if s, ok := w.refSets[h]; ok {
		return s
	}
	if h <= 1 {
		return w.refSets[1]
	}
	prev := w.RefVals(h - 1)
	c := w.commits[h-1]
	if c == nil {
		// the block may have been stored within the cascade that is still running
		for _, nd := range w.nodes {
			if nd == nil {
				continue
			}
			st := w.DiskStore(nd)
			if st.Height() >= h-1 {
				if meta, blk := st.LoadBlockMeta(h-1), st.LoadBlock(h-1); meta != nil && blk != nil {
					c = &commitRec{hash: meta.Hash, by: nd.id, block: blk}
					w.commits[h-1] = c
					break
				}
			}
		}
	}
	if prev == nil || c == nil || c.block == nil {
		return nil
	}
	s := prev.apply(w, c.block.Data.Txs)
	w.refSets[h] = s
	return s
}

// validVote: the harness's own judgement (signature, index, address) against the reference set.
func (w *World) validVote(v *types.Vote) (power int64, ok bool) {
	if v == nil || v.Signature == nil {
		return 0, false
	}
	rs := w.RefVals(v.Height)
	if rs == nil || v.ValidatorIndex < 0 || v.ValidatorIndex >= len(rs.vals) {
		return 0, false
	}
	rv := rs.vals[v.ValidatorIndex]
	if !bytes.Equal(rv.addr, v.ValidatorAddress) {
		return 0, false
	}
	if v.Type != types.VoteTypePrevote && v.Type != types.VoteTypePrecommit {
		return 0, false
	}
	if !w.vals[rv.id].pub.VerifyBytes(types.SignBytes(ChainID, v), v.Signature) {
		return 0, false
	}
	return rv.power, true
}

// ---------------------------------------------------------------------------
// Delivery ledger: every valid vote handed to a node (or emitted by it), once per validator and block.

type hrt struct {
	h, r int64
	t    byte
}

type voteLedger struct {
	// (h,r,type) -> validator index -> block key -> true
	m map[hrt]map[int]map[string]bool
}

func newVoteLedger() *voteLedger { return &voteLedger{m: map[hrt]map[int]map[string]bool{}} }

func (l *voteLedger) add(v *types.Vote) {
	k := hrt{v.Height, v.Round, v.Type}
	if l.m[k] == nil {
		l.m[k] = map[int]map[string]bool{}
	}
	if l.m[k][v.ValidatorIndex] == nil {
		l.m[k][v.ValidatorIndex] = map[string]bool{}
	}
	l.m[k][v.ValidatorIndex][v.BlockID.Key()] = true
}

// powerFor returns the power of distinct validators with a ledger vote for block key bk at (h,r,t).
func (l *voteLedger) powerFor(rs *refSet, h, r int64, t byte, bk string) int64 {
	var p int64
	for idx, blocks := range l.m[hrt{h, r, t}] {
		if blocks[bk] && idx < len(rs.vals) {
			p += rs.vals[idx].power
		}
	}
	return p
}

func (l *voteLedger) powerAny(rs *refSet, h, r int64, t byte) int64 {
	var p int64
	for idx := range l.m[hrt{h, r, t}] {
		if idx < len(rs.vals) {
			p += rs.vals[idx].power
		}
	}
	return p
}

// blocksAt lists the block keys voted for at (h,r,t) in deterministic order.
func (l *voteLedger) blocksAt(h, r int64, t byte) []string {
	set := map[string]bool{}
	for _, blocks := range l.m[hrt{h, r, t}] {
		for bk := range blocks {
			set[bk] = true
		}
	}
	ks := make([]string, 0, len(set))
	for k := range set {
		ks = append(ks, k)
	}
	sort.Strings(ks)
	return ks
}

func (l *voteLedger) rounds(h int64, t byte) []int64 {
	set := map[int64]bool{}
	for k := range l.m {
		if k.h == h && k.t == t {
			set[k.r] = true
		}
	}
	rs := make([]int64, 0, len(set))
	for r := range set {
		rs = append(rs, r)
	}
	sort.Slice(rs, func(i, j int) bool { return rs[i] < rs[j] })
	return rs
}

func (w *World) nodeLedger(id int) *voteLedger {
	if w.ledgers == nil {
		w.ledgers = map[int]*voteLedger{}
	}
	if w.ledgers[id] == nil {
		w.ledgers[id] = newVoteLedger()
	}
	return w.ledgers[id]
}

func (w *World) ledgerDelivered(nd *Node, it *Item) {
	if it.Kind != kVote {
		return
	}
	if _, ok := w.validVote(it.Vote); ok {
		w.nodeLedger(nd.id).add(it.Vote)
	}
}

// ---------------------------------------------------------------------------
// Signature ledger (C03 in vivo): everything an honest signer released.

type sigRec struct {
	h, r      int64
	step      int8 // 1 propose, 2 prevote, 3 precommit
	signBytes []byte
	desc      string
}

type sigLedger struct {
	byNode map[int][]sigRec
}

func newSigLedger() *sigLedger { return &sigLedger{byNode: map[int][]sigRec{}} }

type signerRec struct {
	pv   *types.PrivValidator
	w    *World
	node int
}

func (s *signerRec) GetAddress() []byte { return s.pv.GetAddress() }

func (s *signerRec) SignVote(chainID string, vote *types.Vote) error {
	err := s.pv.SignVote(chainID, vote)
	if err == nil {
		step := int8(2)
		if vote.Type == types.VoteTypePrecommit {
			step = 3
		}
		s.w.released(s.node, sigRec{vote.Height, vote.Round, step, types.SignBytes(chainID, vote), fmt.Sprintf("vote t%d blk:%x", vote.Type, fp(vote.BlockID.Hash))}, vote, nil)
	}
	return err
}

func (s *signerRec) SignProposal(chainID string, p *types.Proposal) error {
	err := s.pv.SignProposal(chainID, p)
	if err == nil {
		s.w.released(s.node, sigRec{p.Height, p.Round, 1, types.SignBytes(chainID, p), fmt.Sprintf("proposal parts:%x", fp(p.BlockPartsHeader.Hash))}, nil, p)
	}
	return err
}

func cmpHRS(a, b sigRec) int {
	switch {
	case a.h != b.h:
		if a.h < b.h {
			return -1
		}
		return 1
	case a.r != b.r:
		if a.r < b.r {
			return -1
		}
		return 1
	case a.step != b.step:
		if a.step < b.step {
			return -1
		}
		return 1
	}
	return 0
}

// released is called on the node's goroutine the moment a signature leaves the signer.
func (w *World) released(node int, rec sigRec, vote *types.Vote, prop *types.Proposal) {
	l := w.ledger
	w.Evals.Inc("C03.release")
	w.Log.Add("  n%d signs h%d r%d step%d %s", node, rec.h, rec.r, rec.step, rec.desc)
	for _, old := range l.byNode[node] {
		c := cmpHRS(rec, old)
		if c == 0 && !bytes.Equal(old.signBytes, rec.signBytes) {
			w.violate("C03", "equivocation", fmt.Sprintf("step%d", rec.step), "validator %d released two different signatures for h=%d r=%d step=%d: %q vs %q", node, rec.h, rec.r, rec.step, old.desc, rec.desc)
		}
	}
	if n := len(l.byNode[node]); n > 0 {
		// non-decreasing with respect to the maximum released so far
		max := l.byNode[node][0]
		for _, o := range l.byNode[node] {
			if cmpHRS(o, max) > 0 {
				max = o
			}
		}
		if cmpHRS(rec, max) < 0 {
			w.violate("C03", "regression", fmt.Sprintf("step%d", rec.step), "validator %d signed h=%d r=%d step=%d after h=%d r=%d step=%d", node, rec.h, rec.r, rec.step, max.h, max.r, max.step)
		}
	}
	l.byNode[node] = append(l.byNode[node], rec)
	if vote != nil {
		if _, ok := w.validVote(vote); ok {
			w.nodeLedger(node).add(vote)
		}
		w.onOwnVote(node, vote)
	}
	if prop != nil {
		w.onOwnProposal(node, prop)
	}
}

// signerWatermark reads the durable watermark of a node's signer file.
func (w *World) checkSignerDurable(nd *Node) {
	pv, err := types.LoadPrivValidator(w.pvFile(nd))
	w.Evals.Inc("C03.durable")
	if err != nil {
		w.violate("C03", "signer-file-unreadable", "load", "validator %d: signer file does not load after crash: %v", nd.id, err)
		return
	}
	wm := sigRec{h: pv.LastHeight, r: pv.LastRound, step: pv.LastStep}
	for _, rec := range w.ledger.byNode[nd.id] {
		if cmpHRS(rec, wm) > 0 {
			w.violate("C03", "not-durable", fmt.Sprintf("step%d", rec.step), "validator %d released a signature for h=%d r=%d step=%d but the durable watermark after the crash is h=%d r=%d step=%d", nd.id, rec.h, rec.r, rec.step, wm.h, wm.r, wm.step)
			return
		}
	}
}

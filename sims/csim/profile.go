package csim

// adjustConfigFor biases the swarm configuration toward what a property needs.
func adjustConfigFor(cfg *Config, prop string, seed uint64) {
	// finding F1 (DESIGN.md): every check but C16's explores beyond it
	cfg.Compensate = prop != "C16"
	switch prop {
	case "C02":
		// one run in three with a Byzantine validator concentrates on defective proposals, with few other faults
		// in the way of their being committed (the draw is the seed's, other properties' runs are untouched)
		for _, b := range cfg.Byz {
			if b && seed%3 == 0 {
				cfg.BadBlockFocus = true
			}
		}
		if cfg.BadBlockFocus {
			cfg.Attack = ""
			cfg.WCrash, cfg.WRestart, cfg.MaxCrashes = 0, 0, 0
			cfg.Partition = false
			if cfg.TargetHeight < 5 {
				cfg.TargetHeight = 5
			}
		}
	case "C12":
		cfg.Suffix = true
	case "C08":
		cfg.WInject = 30
		cfg.WStale = 4
		cfg.MaxSteps = 900
	case "C07":
		cfg.WCrash, cfg.WRestart = 4, 10
		if cfg.MaxCrashes < 3 {
			cfg.MaxCrashes = 3
		}
		cfg.ArmedCrashes = seed%4 == 0
		cfg.WALTruncate = seed%3 == 0
		if cfg.WALHeadLimit == 0 && seed%2 == 0 {
			cfg.WALHeadLimit = 4096
		}
	case "C03":
		if cfg.MaxCrashes == 0 {
			cfg.WCrash, cfg.WRestart, cfg.MaxCrashes = 3, 8, 3
		}
		cfg.ArmedCrashes = true
	}
}

// configureFor installs property-specific extensions on a fresh world.
func configureFor(w *World, prop string) {
	for _, f := range configurers {
		f(w, prop)
	}
}

var configurers = []func(w *World, prop string){
	func(w *World, prop string) {
		if prop == "C07" {
			w.TrackDigests = true
			w.OnRestart = walOnRestart
		}
	},
}

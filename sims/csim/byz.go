package csim

import (
	"fmt"
	"time"

	"github.com/dappledger/AnnChain/gemmill/types"

	"verif/simrt"
)

// Byzantine validators are not nodes: the harness holds their keys and signs
// whatever the action asks for with the real types and SignBytes.

func (w *World) byzIDs() []int {
	var r []int
	for _, v := range w.vals {
		if v.byz {
			r = append(r, v.id)
		}
	}
	return r
}

func (w *World) signVote(v *valInfo, idx int, h, r int64, t byte, id types.BlockID) *types.Vote {
	vote := &types.Vote{ValidatorAddress: v.addr, ValidatorIndex: idx, Height: h, Round: r, Type: t, BlockID: id}
	vote.Signature = v.key.Sign(types.SignBytes(ChainID, vote))
	return vote
}

// applyByz: a.N = Byzantine validator id; a.S = kind; a.A = height; a.B = round; a.C = variant / block selector.
func (w *World) applyByz(a simrt.Action) bool {
	if a.N < 0 || a.N >= len(w.vals) || !w.vals[a.N].byz {
		return false
	}
	v := w.vals[a.N]
	h, r := a.A, a.B
	ref := w.RefVals(h)
	if ref == nil {
		return false
	}
	idx := ref.indexOf(v.addr)
	if idx < 0 {
		return false
	}
	switch a.S {
	case "prevote", "precommit":
		t := types.VoteTypePrevote
		if a.S == "precommit" {
			t = types.VoteTypePrecommit
		}
		var id types.BlockID
		blocks := w.pool.blocks[h]
		if a.C > 0 {
			if len(blocks) == 0 {
				return false
			}
			id = blocks[int(a.C-1)%len(blocks)].ID
		}
		if a.I == "misindexed" {
			// the validator's own, validly signed vote presented under the index of another validator
			// (neither index nor address is covered by the signature)
			other := (idx + 1 + int(a.C)%7) % len(ref.vals)
			if other == idx {
				return false
			}
			w.pool.AddVote(w.signVote(v, other, h, r, t, id), v.id, true, "misindexed")
			w.Faults.Inc("byz_vote_misindexed")
			return true
		}
		it := w.pool.AddVote(w.signVote(v, idx, h, r, t, id), v.id, true, "")
		w.tagSide(a, it, nil)
		w.Faults.Inc("byz_vote")
		return true
	case "propose", "propose-bad":
		// a block built on the state of any honest node that is at height h
		var made bool
		for _, nd := range w.nodes {
			if nd == nil || !nd.inc.Alive() {
				continue
			}
			st := w.StateOf(nd.inc)
			rs := w.Snapshot(nd.inc)
			if st == nil || rs == nil || rs.Height != h {
				continue
			}
			var commit *types.Commit
			if h == 1 {
				commit = &types.Commit{}
			} else if rs.LastCommit != nil && rs.LastCommit.HasTwoThirdsMajority() {
				commit = rs.LastCommit.MakeCommit()
			} else {
				continue
			}
			txs := []types.Tx{types.Tx(fmt.Sprintf("byz-%d-%d-%d-%d", v.id, h, r, a.C))}
			blk, parts := types.MakeBlock(h, ChainID, txs, nil, commit, v.addr, st.LastBlockID, st.Validators.Hash(), st.AppHash, st.ReceiptsHash, w.Cfg.BlockPartSize)
			blk.Header.Time = w.start.Add(time.Duration(h*1000+r*10+a.C) * time.Millisecond)
			if a.S == "propose-bad" {
				if !w.tamperBlock(blk, v, idx, int(a.C)) {
					continue
				}
			}
			parts = blk.MakePartSet(w.Cfg.BlockPartSize)
			// a.I = "pol<k>": the proposal claims a proof-of-lock round k rounds back (whether or not a polka exists there)
			polRound := int64(-1)
			if len(a.I) == 4 && a.I[:3] == "pol" && r-int64(a.I[3]-'0') >= 0 {
				polRound = r - int64(a.I[3]-'0')
				w.Faults.Inc("byz_proposal_claims_pol_round")
			}
			prop := types.NewProposal(h, r, parts.Header(), polRound, types.BlockID{})
			prop.Signature = v.key.Sign(types.SignBytes(ChainID, prop))
			it := w.pool.AddProposal(prop, v.id, true, "")
			w.tagSide(a, it, parts.Header().Hash)
			w.pool.AddPartSet(h, parts, v.id, true)
			made = true
			break
		}
		if made {
			w.Faults.Inc("byz_proposal")
		}
		return made
	}
	return false
}

// applyInject is filled in by inject.go (malformed / adversarial messages, C08/C17).
func (w *World) applyInject(a simrt.Action) bool {
	if w.Injector == nil {
		return false
	}
	return w.Injector(w, a)
}

// tagSide records for which side of a split attack a Byzantine artefact was made (action field I = "s0"/"s1").
func (w *World) tagSide(a simrt.Action, it *Item, setHash []byte) {
	if len(a.I) != 2 || a.I[0] != 's' {
		return
	}
	if w.sideOf == nil {
		w.sideOf = map[string]int{}
	}
	s := int(a.I[1] - '0')
	if it != nil {
		if _, ok := w.sideOf[it.ID]; !ok {
			w.sideOf[it.ID] = s
		}
	}
	if setHash != nil {
		w.sideOf[string(setHash)] = s
	}
	w.Faults.Inc("split_attack_equivocation")
}

var badBlockKinds = []string{"lastcommit-underweight", "lastcommit-foreign-votes", "apphash", "validatorshash", "lastblockid", "height",
	"chainid", "numtxs", "datahash", "receiptshash", "lastcommithash", "proposer", "lastcommit-duplicate-slot", "lastcommit-wrong-height", "lastcommit-mixed-rounds", "lastblockid-parts"}

// tamperBlock makes one thing wrong in a block a Byzantine proposer is about to propose. Honest
// validators must never commit such a block (C02); whether they do is for the commit oracle to see.
func (w *World) tamperBlock(blk *types.Block, v *valInfo, idx int, variant int) bool {
	kind := badBlockKinds[variant%len(badBlockKinds)]
	h := blk.Header.Height
	flip := func(b []byte) []byte {
		c := append([]byte{}, b...)
		if len(c) == 0 {
			return []byte{1}
		}
		c[0] ^= 0x55
		return c
	}
	switch kind {
	case "lastcommit-mixed-rounds":
		// the complete, sufficient commit with the Byzantine validator's own precommit for the same block
		// taken from another round: no single round is shown to have had +2/3
		if h == 1 || blk.LastCommit == nil {
			return false
		}
		ref := w.RefVals(h - 1)
		if ref == nil {
			return false
		}
		bidx := ref.indexOf(v.addr)
		if bidx < 0 || bidx >= len(blk.LastCommit.Precommits) {
			return false
		}
		var round int64
		for _, pc := range blk.LastCommit.Precommits {
			if pc != nil {
				round = pc.Round
			}
		}
		c := &types.Commit{BlockID: blk.LastCommit.BlockID, Precommits: append([]*types.Vote{}, blk.LastCommit.Precommits...)}
		c.Precommits[bidx] = w.signVote(v, bidx, h-1, round+1+int64(variant%3), types.VoteTypePrecommit, c.BlockID)
		blk.LastCommit = c
		blk.Header.LastCommitHash = c.Hash()
	case "lastcommit-underweight", "lastcommit-foreign-votes", "lastcommit-duplicate-slot", "lastcommit-wrong-height":
		if h == 1 || blk.LastCommit == nil || len(blk.LastCommit.Precommits) == 0 {
			return false
		}
		ref := w.RefVals(h - 1)
		if ref == nil {
			return false
		}
		c := &types.Commit{BlockID: blk.LastCommit.BlockID, Precommits: append([]*types.Vote{}, blk.LastCommit.Precommits...)}
		// drop precommits (largest index first) until what is left for the block is at most 2/3
		power := func() int64 {
			var p int64
			for i, pc := range c.Precommits {
				if pc != nil && pc.BlockID.Equals(c.BlockID) && i < len(ref.vals) {
					p += ref.vals[i].power
				}
			}
			return p
		}
		bidx := ref.indexOf(v.addr)
		for i := len(c.Precommits) - 1; i >= 0 && power()*3 > ref.total*2; i-- {
			if i != bidx {
				c.Precommits[i] = nil
			}
		}
		if power()*3 > ref.total*2 {
			if bidx >= 0 {
				c.Precommits[bidx] = nil
			}
			if power()*3 > ref.total*2 {
				return false
			}
		}
		var round int64
		for _, pc := range blk.LastCommit.Precommits {
			if pc != nil {
				round = pc.Round
			}
		}
		switch kind {
		case "lastcommit-foreign-votes":
			// the Byzantine validator's own, validly signed precommit for another block fills its slot
			if bidx < 0 {
				return false
			}
			other := types.BlockID{Hash: flip(c.BlockID.Hash), PartsHeader: c.BlockID.PartsHeader}
			c.Precommits[bidx] = w.signVote(v, bidx, h-1, round, types.VoteTypePrecommit, other)
		case "lastcommit-duplicate-slot":
			// one honest precommit copied into the emptied slots
			var src *types.Vote
			for _, pc := range c.Precommits {
				if pc != nil {
					src = pc
				}
			}
			if src == nil {
				return false
			}
			for i := range c.Precommits {
				if c.Precommits[i] == nil {
					c.Precommits[i] = src
				}
			}
		case "lastcommit-wrong-height":
			if bidx < 0 {
				return false
			}
			c.Precommits[bidx] = w.signVote(v, bidx, h, round, types.VoteTypePrecommit, c.BlockID)
		}
		blk.LastCommit = c
		blk.Header.LastCommitHash = c.Hash()
	case "apphash":
		blk.Header.AppHash = flip(blk.Header.AppHash)
	case "validatorshash":
		blk.Header.ValidatorsHash = flip(blk.Header.ValidatorsHash)
	case "lastblockid":
		if h == 1 {
			return false
		}
		blk.Header.LastBlockID.Hash = flip(blk.Header.LastBlockID.Hash)
	case "lastblockid-parts":
		// the right predecessor hash with another part-set header: not the id of the block that was committed
		if h == 1 {
			return false
		}
		blk.Header.LastBlockID.PartsHeader.Hash = flip(blk.Header.LastBlockID.PartsHeader.Hash)
	case "height":
		blk.Header.Height = h + 1
	case "chainid":
		blk.Header.ChainID = ChainID + "x"
	case "numtxs":
		blk.Header.NumTxs++
	case "datahash":
		blk.Header.DataHash = flip(blk.Header.DataHash)
	case "receiptshash":
		blk.Header.ReceiptsHash = flip(blk.Header.ReceiptsHash)
	case "lastcommithash":
		blk.Header.LastCommitHash = flip(blk.Header.LastCommitHash)
	case "proposer":
		blk.Header.ProposerAddress = flip(blk.Header.ProposerAddress)
	}
	w.Faults.Inc("byz_bad_block:" + kind)
	return true
}

package csim

import (
	"fmt"
	"os"
	"regexp"
	"sort"
	"strings"
	"time"

	"github.com/dappledger/AnnChain/gemmill/consensus/pbft"

	"verif/simrt"
)

// real (not simulated) time for watchdogs only; never influences a decision of a run
func nowReal() int64            { return realNanos() }
func sinceReal(t int64) float64 { return float64(realNanos()-t) / 1e9 }

// DrawConfig draws a swarm-style configuration from the seed: validator count,
// power vector, Byzantine subset (< 1/3 power), timeouts, part size, WAL head
// limit, which fault kinds are enabled and how often.
func DrawConfig(seed uint64, profile string) Config {
	r := simrt.NewRand(seed ^ 0xabcdef)
	cfg := Config{Seed: seed}
	ns := []int{1, 2, 3, 4, 4, 4, 5, 7}
	cfg.N = ns[r.Intn(len(ns))]
	if profile == "wal" || profile == "crash" {
		cfg.N = []int{1, 3, 4, 4}[r.Intn(4)]
	}
	cfg.Powers = make([]int64, cfg.N)
	switch r.Intn(6) {
	case 4: // unit powers: every validator matters at the quorum boundary
		for i := range cfg.Powers {
			cfg.Powers[i] = 1
		}
	case 5: // small unequal powers
		for i := range cfg.Powers {
			cfg.Powers[i] = int64(1 + r.Intn(3))
		}
	case 0: // equal
		for i := range cfg.Powers {
			cfg.Powers[i] = 10
		}
	case 1: // skewed
		for i := range cfg.Powers {
			cfg.Powers[i] = int64(1 + r.Intn(20))
		}
	case 2: // exact thirds boundary: total divisible by 3
		for i := range cfg.Powers {
			cfg.Powers[i] = 3
		}
	default:
		for i := range cfg.Powers {
			cfg.Powers[i] = int64(10 + i)
		}
	}
	var total int64
	for _, p := range cfg.Powers {
		total += p
	}
	cfg.Byz = make([]bool, cfg.N)
	if profile != "nobyz" && r.Chance(2, 3) {
		// greedily add Byzantine validators while their power stays < 1/3
		var bp int64
		for _, i := range r.Perm(cfg.N) {
			if (bp+cfg.Powers[i])*3 < total && r.Chance(3, 4) {
				cfg.Byz[i] = true
				bp += cfg.Powers[i]
			}
		}
	}
	scale := []int{1, 1, 3, 10}[r.Intn(4)]
	cfg.TPropose, cfg.TProposeDelta = 300*scale, 50*scale
	cfg.TPrevote, cfg.TPrevoteDelta = 100*scale, 50*scale
	cfg.TPrecommit, cfg.TPrecommitDelta = 100*scale, 50*scale
	cfg.TCommit = 100 * scale
	// a single validator with skip_timeout_commit produces blocks in a tight loop
	// (no external input needed), which never reaches quiescence
	cfg.SkipTimeoutCommit = r.Chance(1, 4) && cfg.N > 1
	cfg.BlockPartSize = []int{64, 256, 1024, 65536}[r.Intn(4)]
	cfg.WALHeadLimit = []int64{0, 2048, 8192, 0}[r.Intn(4)]
	cfg.MaxSteps = 1500
	cfg.TargetHeight = int64(3 + r.Intn(4))
	cfg.WDeliver, cfg.WTock, cfg.WAdvance = 100, 12, 6
	cfg.WTx = 3
	if r.Chance(1, 2) {
		cfg.WStale = 4
	}
	hasByz := false
	for _, b := range cfg.Byz {
		hasByz = hasByz || b
	}
	if hasByz {
		cfg.WByz = 6 + r.Intn(20)
	}
	if r.Chance(1, 2) || profile == "wal" || profile == "crash" {
		cfg.WCrash, cfg.WRestart, cfg.MaxCrashes = 2, 8, 1+r.Intn(4)
		cfg.WALTruncate = r.Chance(1, 3)
		cfg.ArmedCrashes = r.Chance(1, 2)
	}
	cfg.Partition = r.Chance(1, 4)
	if r.Chance(1, 4) || ((profile == "wal" || profile == "crash") && r.Chance(1, 3)) {
		cfg.BigTx, cfg.BlockPartSize, cfg.WTx = true, 65536, 8
	}
	if r.Chance(1, 2) {
		cfg.DelayPct, cfg.DelayMax = []int{5, 15, 30}[r.Intn(3)], []int{60, 200, 500}[r.Intn(3)]
	}
	if hasByz && cfg.N >= 3 && r.Chance(1, 3) {
		drawSplitAttack(&cfg, r)
	} else if cfg.N >= 4 && r.Chance(1, 4) {
		drawLaggard(&cfg, r)
	}
	cfg.ValChanges = r.Chance(1, 4)
	cfg.Suffix = true
	cfg.SuffixByzSilent = r.Chance(1, 2)
	return cfg
}

// Run executes one complete simulated run: the generated (or replayed) action
// list, then the fair suffix.
func (w *World) Run(replay []simrt.Action) {
	for _, nd := range w.nodes {
		if nd != nil {
			w.StartNode(nd)
		}
	}
	w.afterStep()
	if replay != nil {
		w.replaying = true
		for _, a := range replay {
			if w.stop && w.StopOnViolation {
				break
			}
			w.Apply(a)
		}
	} else {
		for w.Step < w.Cfg.MaxSteps && !w.reachedTarget() {
			if w.stop && w.StopOnViolation {
				break
			}
			a, ok := w.nextAction()
			if !ok {
				break
			}
			w.Apply(a)
		}
	}
	if w.Cfg.Suffix && !(w.stop && w.StopOnViolation) {
		w.FairSuffix()
	}
	for _, nd := range w.nodes {
		if nd != nil {
			w.checkSignerDurable(nd)
		}
	}
	if w.AtEnd != nil {
		w.AtEnd(w)
	}
}

func (w *World) reachedTarget() bool {
	for _, nd := range w.nodes {
		if nd == nil {
			continue
		}
		if !nd.inc.Alive() || nd.inc.store.Height() < w.Cfg.TargetHeight {
			return false
		}
	}
	return true
}

func (w *World) partitioned() func(from, to int) bool {
	if w.Cfg.Attack == "split" {
		return func(from, to int) bool { return w.side(from) != w.side(to) }
	}
	if !w.Cfg.Partition {
		return nil
	}
	// the partition is a function of simulated time: odd 2-second windows split the nodes in two halves
	win := int(w.Now() / (2 * time.Second))
	if win%2 == 0 {
		return nil
	}
	w.Faults.Inc("partition_window_steps")
	return func(from, to int) bool { return (from%2 == 0) != (to%2 == 0) }
}

// nextAction is the seeded policy: it looks at what is enabled and draws one action.
func (w *World) nextAction() (simrt.Action, bool) {
	cfg := &w.Cfg
	vs := w.views()
	part := w.partitioned()
	type cand struct {
		v     *view
		items []*Item
	}
	var deliverable []cand
	for _, v := range vs {
		if its := w.relevantItems(v, part, true); len(its) > 0 {
			deliverable = append(deliverable, cand{v, its})
		}
	}
	var tockNodes []*Node
	for _, v := range vs {
		if len(v.nd.inc.ticker.Held()) > 0 {
			tockNodes = append(tockNodes, v.nd)
		}
	}
	var dead, live []*Node
	for _, nd := range w.nodes {
		if nd == nil {
			continue
		}
		if nd.inc.Alive() {
			live = append(live, nd)
		} else {
			dead = append(dead, nd)
		}
	}
	weights := make([]int, 9)
	const (
		iDeliver = iota
		iTock
		iAdvance
		iCrash
		iRestart
		iByz
		iTx
		iStale
		iInject
	)
	if len(deliverable) > 0 {
		weights[iDeliver] = cfg.WDeliver
	}
	if len(tockNodes) > 0 {
		weights[iTock] = cfg.WTock
		if len(deliverable) == 0 {
			weights[iTock] = cfg.WTock * 10
		}
	}
	weights[iAdvance] = cfg.WAdvance
	if len(deliverable) == 0 && len(tockNodes) == 0 {
		weights[iAdvance] = 100
	}
	crashesLeft := 0
	for _, nd := range live {
		if nd.crashes < cfg.MaxCrashes {
			crashesLeft++
		}
	}
	if crashesLeft > 0 && len(live) > 0 {
		weights[iCrash] = cfg.WCrash
	}
	if len(dead) > 0 {
		weights[iRestart] = cfg.WRestart
	}
	byz := w.byzIDs()
	if len(byz) > 0 && len(vs) > 0 {
		weights[iByz] = cfg.WByz
	}
	if len(live) > 0 {
		weights[iTx] = cfg.WTx
		if len(w.pool.items) > 0 {
			weights[iStale] = cfg.WStale
		}
		if w.Injector != nil {
			weights[iInject] = cfg.WInject
		}
	}
	if cfg.BadBlockFocus && len(byz) > 0 && len(vs) > 0 {
		// bad-block focus (swarm variant): a Byzantine proposer's first proposal of a round is, more often than
		// not, a block with this run's kind of defect, made as soon as some validator is in that round - so that
		// the honest validators meet it before their propose timeout and, if they accept it, commit it
		for _, v := range vs {
			id := w.proposerID(v.rs)
			if id < 0 || !w.vals[id].byz || v.rs.Step > pbft.RoundStepPropose {
				continue
			}
			pk := [2]int64{v.rs.Height, v.rs.Round}
			if w.byzProposed[pk] > 0 {
				continue
			}
			if w.byzProposed == nil {
				w.byzProposed = map[[2]int64]int{}
			}
			w.byzProposed[pk]++
			if w.Rng.Chance(2, 3) {
				k := int(w.Cfg.Seed>>3) % len(badBlockKinds)
				if w.Rng.Chance(1, 4) {
					k = w.Rng.Intn(len(badBlockKinds))
				}
				return simrt.Action{K: "byz", N: id, S: "propose-bad", A: v.rs.Height, B: v.rs.Round, C: int64(k)}, true
			}
			break
		}
	}
	switch w.Rng.Pick(weights) {
	case iDeliver:
		c := deliverable[w.Rng.Intn(len(deliverable))]
		// prefer older items (lower seq) mildly: pick min of two draws
		i := w.Rng.Intn(len(c.items))
		if j := w.Rng.Intn(len(c.items)); j < i && w.Rng.Chance(1, 2) {
			i = j
		}
		return simrt.Action{K: "deliver", N: c.v.nd.id, I: c.items[i].ID}, true
	case iTock:
		nd := tockNodes[w.Rng.Intn(len(tockNodes))]
		return simrt.Action{K: "tock", N: nd.id}, true
	case iAdvance:
		ms := []int64{10, 50, 100, 300, 1000, 3000}[w.Rng.Intn(6)]
		return simrt.Action{K: "advance", A: ms}, true
	case iCrash:
		var cs []*Node
		for _, nd := range live {
			if nd.crashes < cfg.MaxCrashes {
				cs = append(cs, nd)
			}
		}
		nd := cs[w.Rng.Intn(len(cs))]
		k := int64(0)
		if cfg.ArmedCrashes && w.Rng.Chance(2, 3) {
			k = int64(1 + w.Rng.Intn(12))
		}
		return simrt.Action{K: "crash", N: nd.id, A: k}, true
	case iRestart:
		nd := dead[w.Rng.Intn(len(dead))]
		cut := int64(0)
		if cfg.WALTruncate && w.Rng.Chance(1, 2) {
			cut = int64(1 + w.Rng.Intn(400))
		}
		return simrt.Action{K: "restart", N: nd.id, A: cut}, true
	case iByz:
		v := vs[w.Rng.Intn(len(vs))]
		id := byz[w.Rng.Intn(len(byz))]
		if a, ok := w.splitByzAction(v, id); ok {
			return a, true
		}
		h := v.rs.Height
		r := v.rs.Round + int64(w.Rng.Intn(3)) - int64(w.Rng.Intn(2))
		if r < 0 {
			r = 0
		}
		kind := []string{"prevote", "precommit", "prevote", "precommit", "propose"}[w.Rng.Intn(5)]
		if w.proposerID(v.rs) == id && w.Rng.Chance(1, 2) {
			kind, r = "propose", v.rs.Round
			// validators take the first proposal of a round they see: a proposer that floods a round with
			// proposals dilutes every single one, so it mostly proposes once per round (and sometimes equivocates)
			pk := [2]int64{h, r}
			if w.byzProposed == nil {
				w.byzProposed = map[[2]int64]int{}
			}
			if w.byzProposed[pk] > 0 && !w.Rng.Chance(1, 5) {
				kind = []string{"prevote", "precommit"}[w.Rng.Intn(2)]
			} else {
				w.byzProposed[pk]++
			}
		}
		if kind == "propose" && r == v.rs.Round && w.proposerID(v.rs) == id {
			if w.Rng.Chance(1, 2) {
				// every run has one kind of bad block its Byzantine proposers come back to (swarm style)
				k := w.Rng.Intn(len(badBlockKinds))
				if w.Rng.Chance(3, 4) {
					k = int(w.Cfg.Seed>>7) % len(badBlockKinds)
				}
				return simrt.Action{K: "byz", N: id, S: "propose-bad", A: h, B: r, C: int64(k)}, true
			}
			if r > 0 && w.Rng.Chance(1, 2) {
				return simrt.Action{K: "byz", N: id, S: "propose", A: h, B: r, C: int64(w.Rng.Intn(4)), I: fmt.Sprintf("pol%d", 1+w.Rng.Intn(int(min(r, 3))))}, true
			}
		}
		if kind != "propose" && w.Rng.Chance(1, 8) {
			return simrt.Action{K: "byz", N: id, S: kind, A: h, B: r, C: int64(w.Rng.Intn(4)), I: "misindexed"}, true
		}
		return simrt.Action{K: "byz", N: id, S: kind, A: h, B: r, C: int64(w.Rng.Intn(4))}, true
	case iTx:
		nd := live[w.Rng.Intn(len(live))]
		w.txSeq++
		s := fmt.Sprintf("tx-%d-%x", w.txSeq, w.Rng.Intn(1<<20))
		if cfg.BigTx && w.Rng.Chance(1, 2) {
			// several kilobytes: the block part that carries it is one WAL record longer than any buffer the log uses
			s += "-" + strings.Repeat(fmt.Sprintf("%x", w.Rng.Intn(1<<30)), 400+w.Rng.Intn(1500))
		}
		if cfg.ValChanges && w.Rng.Chance(1, 3) {
			// only honest powers move, and only upward, so Byzantine power stays < 1/3
			var hs []int
			for _, v := range w.vals {
				if !v.byz {
					hs = append(hs, v.id)
				}
			}
			id := hs[w.Rng.Intn(len(hs))]
			s = string(valTx(id, w.vals[id].power+int64(1+w.Rng.Intn(15))))
		}
		return simrt.Action{K: "tx", N: nd.id, S: s}, true
	case iStale:
		nd := live[w.Rng.Intn(len(live))]
		it := w.pool.items[w.Rng.Intn(len(w.pool.items))]
		from := int64(0)
		if w.Rng.Chance(1, 3) {
			from = int64(1 + w.Rng.Intn(len(w.vals)))
		}
		w.Faults.Inc("stale_or_duplicate_delivery")
		return simrt.Action{K: "deliver", N: nd.id, I: it.ID, A: from}, true
	case iInject:
		return w.DrawInject(w, live)
	}
	return simrt.Action{}, false
}

// FairSuffix: faults stop; every pending message and timeout is delivered in a
// canonical order until every honest node has committed one height more than
// the highest height any of them had committed, within a bound on simulated time.
func (w *World) FairSuffix() {
	start := w.Now()
	// faults stop: pending armed crash points are disarmed
	for _, nd := range w.nodes {
		if nd != nil && nd.inc != nil && nd.inc.Alive() {
			nd.inc.life.Disarm()
		}
	}
	for _, nd := range w.nodes {
		if nd != nil && !nd.inc.Alive() {
			if nd.inc.life.Dead() {
				w.quiesceDead(nd.inc)
			}
			w.Step++
			w.StartNode(nd)
			w.onRestart(nd)
			w.afterStep()
		}
	}
	var hmax int64
	r0 := int64(0)
	for _, v := range w.views() {
		if h := v.nd.inc.store.Height(); h > hmax {
			hmax = h
		}
		if v.rs.Round > r0 {
			r0 = v.rs.Round
		}
	}
	goal := hmax + 1
	cfg := &w.Cfg
	// generous budget: R rounds beyond the highest current round, timeouts growing with the round
	R := int64(3*cfg.N + 5)
	var budget time.Duration
	for r := r0; r <= r0+R; r++ {
		budget += time.Duration(cfg.TPropose+cfg.TProposeDelta*int(r)+cfg.TPrevote+cfg.TPrevoteDelta*int(r)+cfg.TPrecommit+cfg.TPrecommitDelta*int(r)) * time.Millisecond
	}
	budget += time.Duration(cfg.TCommit)*time.Millisecond*4 + 10*time.Second
	// nodes that lag whole heights behind need a commit timeout and a round per height
	var lag int64
	for _, v := range w.views() {
		if d := hmax - v.nd.inc.store.Height(); d > lag {
			lag = d
		}
	}
	budget += time.Duration(lag) * time.Duration(cfg.TCommit+cfg.TPropose+cfg.TPrevote+cfg.TPrecommit+1000) * time.Millisecond
	w.Evals.Inc("C12.suffix")
	guard := 0
	idle := 0
	wall := nowReal()
	beat := wall
	for {
		guard++
		if sinceReal(beat) > 20 {
			beat = nowReal()
			fmt.Fprintf(os.Stderr, "suffix alive step %d sim %v\n", w.Step, w.Now())
		}
		if sinceReal(wall) > float64(simrt.EnvInt("VERIF_SUFFIX_WALL_S", 100)) {
			// real-time cap: the run is inconclusive, not a violation
			w.Probes.Inc("suffix_inconclusive_real_time_cap")
			return
		}
		if w.stop && w.StopOnViolation {
			return
		}
		done := true
		vs := w.views()
		for _, nd := range w.nodes {
			if nd == nil {
				continue
			}
			if !nd.inc.Alive() {
				// died in the suffix (panic): reported by afterStep; liveness is void for it
				continue
			}
			if nd.inc.store.Height() < goal {
				done = false
			}
		}
		if done {
			w.Probes.Inc("suffix_committed")
			w.suffixSim = w.Now() - start
			return
		}
		if w.Now()-start > budget || guard > 200000 {
			var lag []string
			for _, v := range vs {
				if v.nd.inc.store.Height() < goal {
					lag = append(lag, fmt.Sprintf("n%d@h%d/r%d/s%d", v.nd.id, v.rs.Height, v.rs.Round, v.rs.Step))
				}
			}
			for _, nd := range w.nodes {
				if nd != nil && !nd.inc.Alive() {
					lag = append(lag, fmt.Sprintf("n%d:dead(%s)", nd.id, nd.inc.life.Reason))
				}
			}
			w.violate("C12", "no-progress-in-fair-suffix", "stall", "after faults stopped, height %d was not committed by %v within %v of simulated time (%d validators)", goal, lag, budget, cfg.N)
			return
		}
		progressed := false
		for _, v := range vs {
			for _, it := range w.relevantItems(v, nil) {
				if w.Cfg.SuffixByzSilent && it.Byz && !it.Held {
					// silent Byzantine validators send nothing new; what an honest node already
					// holds of theirs is gossiped on by that node
					continue
				}
				if !v.nd.inc.Alive() {
					break
				}
				w.Step++
				w.Deliver(v.nd, it, 0)
				progressed = true
				if os.Getenv("VERIF_SUFFIX_DEBUG") != "" && guard > 2000 && guard%500 == 0 {
					extra := ""
					if it.Kind == kPart && v.rs.ProposalBlockParts != nil {
						hd := v.rs.ProposalBlockParts.Header()
						extra = fmt.Sprintf(" node parts header total=%d hash=%X count=%d; item header total=%d; proof ok=%v", hd.Total, fp(hd.Hash), v.rs.ProposalBlockParts.Count(), it.PSH.Total, it.Part.Proof.Verify(it.Part.Index, hd.Total, it.Part.Hash(), hd.Hash))
					}
					fmt.Fprintf(os.Stderr, "suffix redelivery n%d <- %s (node at h%d r%d s%d)%s\n", v.nd.id, it.String(), v.rs.Height, v.rs.Round, v.rs.Step, extra)
				}
			}
		}
		for _, v := range vs {
			if !v.nd.inc.Alive() {
				continue
			}
			for len(v.nd.inc.ticker.Held()) > 0 {
				w.Step++
				w.call(v.nd.inc, "tock", func() { v.nd.inc.ticker.Release(0) })
				progressed = true
			}
		}
		if !progressed {
			// nothing deliverable: let time pass, in growing quanta while nothing happens
			idle++
			q := 50 * time.Millisecond
			if idle > 4 {
				q = 250 * time.Millisecond
			}
			w.Step++
			time.Sleep(q)
			synctestWait()
		} else {
			idle = 0
		}
		w.afterStep()
	}
}

func (w *World) onRestart(nd *Node) {
	// C04 quantifies over interleavings at one running validator; what survives a
	// crash is C07's subject. The lock monitor starts over with each incarnation.
	if ls := w.locks[nd.id]; ls != nil {
		ls.bound = false
	}
	for _, o := range w.oracles {
		if co, ok := o.(*commitOracle); ok {
			co.RecheckFromDisk(w, nd)
		}
	}
	w.checkSignerDurable(nd)
	if w.OnRestart != nil {
		w.OnRestart(w, nd)
	}
}

var hexRe = regexp.MustCompile(`0x[0-9a-fA-F]+|[0-9A-F]{8,}`)

// panicKey classifies a panic by its topmost repository frame (stable across seeds).
func panicKey(val, stack string) string {
	lines := strings.Split(stack, "\n")
	for i, l := range lines {
		if strings.Contains(l, "AnnChain/") && !strings.Contains(l, "simhook") && !strings.Contains(l, "go-common.Panic") && !strings.Contains(l, "go-common.panicLog") && i+1 < len(lines) {
			fn := strings.TrimSpace(l)
			if k := strings.Index(fn, "("); k > 0 && !strings.HasPrefix(fn, "github.com") {
				continue
			}
			if j := strings.LastIndex(fn, "/"); j >= 0 {
				fn = fn[j+1:]
			}
			if k := strings.LastIndex(fn, "("); k > 0 {
				fn = fn[:k]
			}
			return fn
		}
	}
	return hexRe.ReplaceAllString(truncStr(val, 60), "#")
}

func (w *World) lastActionUntrusted() bool {
	return w.untrusted
}

func sortedKeysB(m map[string]bool) []string {
	ks := make([]string, 0, len(m))
	for k := range m {
		ks = append(ks, k)
	}
	sort.Strings(ks)
	return ks
}

// Digest is the comparable abstract of a round state (C07).
func Digest(rs *pbft.RoundState) string {
	if rs == nil {
		return "nil"
	}
	var sb strings.Builder
	fmt.Fprintf(&sb, "h%d r%d s%d cr%d lr%d", rs.Height, rs.Round, rs.Step, rs.CommitRound, rs.LockedRound)
	if rs.LockedBlock != nil {
		fmt.Fprintf(&sb, " lock:%X", fp(rs.LockedBlock.Hash()))
	}
	if rs.Proposal != nil {
		fmt.Fprintf(&sb, " prop:%d/%X", rs.Proposal.Round, fp(rs.Proposal.BlockPartsHeader.Hash))
	}
	if rs.ProposalBlockParts != nil {
		fmt.Fprintf(&sb, " parts:%X/%s", fp(rs.ProposalBlockParts.Header().Hash), rs.ProposalBlockParts.BitArray().String())
	}
	if rs.ProposalBlock != nil {
		fmt.Fprintf(&sb, " blk:%X", fp(rs.ProposalBlock.Hash()))
	}
	if rs.Votes != nil {
		for r := int64(0); r <= rs.Votes.Round(); r++ {
			if pv := rs.Votes.Prevotes(r); pv != nil {
				m, ok := pv.TwoThirdsMajority()
				fmt.Fprintf(&sb, " pv%d:%s", r, pv.BitArray().String())
				if ok {
					fmt.Fprintf(&sb, "=%X", fp(m.Hash))
				}
			}
			if pc := rs.Votes.Precommits(r); pc != nil {
				m, ok := pc.TwoThirdsMajority()
				fmt.Fprintf(&sb, " pc%d:%s", r, pc.BitArray().String())
				if ok {
					fmt.Fprintf(&sb, "=%X", fp(m.Hash))
				}
			}
		}
	}
	if rs.LastCommit != nil {
		fmt.Fprintf(&sb, " lc:%d/%s", rs.LastCommit.Round(), rs.LastCommit.BitArray().String())
	}
	return sb.String()
}

package csim

import (
	"crypto/sha256"
	"fmt"
	"strconv"
	"strings"

	"github.com/dappledger/AnnChain/gemmill/consensus/pbft"
	"github.com/dappledger/AnnChain/gemmill/modules/go-events"
	"github.com/dappledger/AnnChain/gemmill/types"
)

// Lite application: a deterministic, stateless stand-in for the EVM app used by
// the consensus-only properties. The hashes it returns are a pure function of
// the block, so every replica computes the same ones and restarts need no
// application recovery.
func liteAppHash(b *types.Block) (app, receipts []byte) {
	h := sha256.New()
	h.Write([]byte("app"))
	h.Write(b.Header.AppHash)
	h.Write(b.Header.DataHash)
	app = h.Sum(nil)
	h = sha256.New()
	h.Write([]byte("rcpt"))
	h.Write(b.Header.DataHash)
	receipts = h.Sum(nil)
	return
}

func installLiteApp(w *World, inc *Incarnation) {
	for _, ev := range []string{types.EventStringLock(), types.EventStringUnlock(), types.EventStringRelock(), types.EventStringPolka(), types.EventStringTimeoutPropose(), types.EventStringTimeoutWait(), types.EventStringCompleteProposal(), types.EventStringNewRound()} {
		ev := ev
		types.AddListenerForEvent(inc.evsw, "harness", ev, func(ed types.TMEventData) {
			d := ed.(types.EventDataRoundState)
			w.Probes.Inc("event_" + ev)
			if ev == types.EventStringNewRound() && w.Log.Keep {
				if rs, ok := d.RoundState.(*pbft.RoundState); ok && rs.Validators != nil {
					w.Log.Text = append(w.Log.Text, fmt.Sprintf("  n%d newround h%d r%d proposer %X accums %s", inc.node.id, d.Height, d.Round, fp(rs.Validators.Proposer().Address), describeAccum(rs.Validators)))
				}
			}
			w.Log.Add("  n%d event %s h%d r%d %s", inc.node.id, ev, d.Height, d.Round, d.Step)
		})
	}
	types.AddListenerForEvent(inc.evsw, "liteapp", types.EventStringHookNewRound(), func(ed types.TMEventData) {
		ed.(types.EventDataHookNewRound).ResCh <- types.NewRoundResult{}
	})
	types.AddListenerForEvent(inc.evsw, "liteapp", types.EventStringHookExecute(), func(ed types.TMEventData) {
		d := ed.(types.EventDataHookExecute)
		d.ResCh <- types.ExecuteResult{ValidTxs: d.Block.Data.Txs}
	})
	types.AddListenerForEvent(inc.evsw, "liteapp", types.EventStringHookCommit(), func(ed types.TMEventData) {
		d := ed.(types.EventDataHookCommit)
		a, r := liteAppHash(d.Block)
		d.ResCh <- types.CommitResult{AppHash: a, ReceiptsHash: r}
	})
}

// liteExec implements state.IBlockExecutable. Transactions of the form
// "val:<id>:<power>" change the voting power of validator <id> from the next
// height on (the consensus-visible effect of the admin plugin).
type liteExec struct {
	w  *World
	nd *Node
}

func (e *liteExec) BeginBlock(*types.Block, events.Fireable, *types.PartSetHeader) error { return nil }
func (e *liteExec) ExecBlock(*types.Block, events.Fireable, *types.ExecuteResult) error  { return nil }
func (e *liteExec) EndBlock(b *types.Block, _ events.Fireable, _ *types.PartSetHeader, _ []*types.ValidatorAttr, next *types.ValidatorSet) error {
	for _, tx := range b.Data.Txs {
		id, power, ok := parseValTx(tx)
		if !ok || id < 0 || id >= len(e.w.vals) {
			continue
		}
		applyValChange(next, e.w.vals[id], power)
	}
	return nil
}

func applyValChange(vs *types.ValidatorSet, v *valInfo, power int64) {
	_, cur := vs.GetByAddress(v.addr)
	if power == 0 {
		if cur != nil {
			vs.Remove(v.addr)
		}
		return
	}
	if cur == nil {
		vs.Add(types.NewValidator(v.pub, power, false))
		return
	}
	cur.VotingPower = power
	vs.Update(cur)
}

func valTx(id int, power int64) types.Tx { return types.Tx(fmt.Sprintf("val:%d:%d", id, power)) }

func parseValTx(tx types.Tx) (id int, power int64, ok bool) {
	s := string(tx)
	if !strings.HasPrefix(s, "val:") {
		return 0, 0, false
	}
	parts := strings.Split(s, ":")
	if len(parts) != 3 {
		return 0, 0, false
	}
	i, err1 := strconv.Atoi(parts[1])
	p, err2 := strconv.ParseInt(parts[2], 10, 64)
	if err1 != nil || err2 != nil || p < 0 {
		return 0, 0, false
	}
	return i, p, true
}

// Package valsetsim replays one validator-set history on several "replicas"
// that differ only in how they got there: single round increments, batched
// increments (round skipping), copy-on-increment, and a persistence round trip
// (restart). Property C16: they must agree on proposer and hash.
package valsetsim

import (
	"bytes"
	"encoding/json"
	"fmt"
	"testing"

	crypto "github.com/dappledger/AnnChain/gemmill/go-crypto"
	"github.com/dappledger/AnnChain/gemmill/go-wire"
	"github.com/dappledger/AnnChain/gemmill/types"

	"verif/simrt"
)

type config struct {
	Seed   uint64  `json:"seed"`
	Powers []int64 `json:"powers"`
	Pool   int     `json:"pool"` // number of candidate validators (>= len(Powers))
}

func init() { crypto.NodeInit(crypto.CryptoType) }

func generate(seed uint64, prop string) simrt.Case {
	r := simrt.NewRand(seed)
	n := 1 + r.Intn(7)
	cfg := config{Seed: seed, Pool: n + r.Intn(4)}
	mode := r.Intn(4)
	for i := 0; i < n; i++ {
		switch mode {
		case 0:
			cfg.Powers = append(cfg.Powers, 10)
		case 1:
			cfg.Powers = append(cfg.Powers, int64(1+r.Intn(9)))
		case 2:
			cfg.Powers = append(cfg.Powers, int64(1+r.Intn(1000)))
		default:
			cfg.Powers = append(cfg.Powers, int64(1)<<uint(r.Intn(40)))
		}
	}
	var acts []simrt.Action
	steps := 3 + r.Intn(25)
	for i := 0; i < steps; i++ {
		switch r.Pick([]int{60, 8, 8, 5, 10, 6}) {
		case 0:
			k := int64(1)
			if r.Chance(1, 2) {
				k = int64(1 + r.Intn(6))
			}
			acts = append(acts, simrt.Action{K: "inc", A: k, B: int64(r.Intn(1 << 16))})
		case 1:
			acts = append(acts, simrt.Action{K: "add", N: r.Intn(cfg.Pool), A: int64(1 + r.Intn(50)), C: int64(r.Intn(2))})
		case 2:
			acts = append(acts, simrt.Action{K: "update", N: r.Intn(cfg.Pool), A: int64(1 + r.Intn(50)), C: int64(r.Intn(2))})
		case 3:
			acts = append(acts, simrt.Action{K: "remove", N: r.Intn(cfg.Pool), C: int64(r.Intn(2))})
		case 4:
			// C=1: nothing looks at the set between this step and the next (observing it fills its caches)
			acts = append(acts, simrt.Action{K: "persist", C: int64(r.Intn(2))})
		case 5:
			acts = append(acts, simrt.Action{K: "copymut", A: int64(1 + r.Intn(3)), N: r.Intn(cfg.Pool)})
		}
	}
	if r.Chance(1, 3) {
		acts = append([]simrt.Action{{K: "fair", A: int64(r.Intn(50))}}, acts...)
	}
	b, _ := json.Marshal(cfg)
	return simrt.Case{Config: b, Actions: acts}
}

type replica struct {
	name       string
	vs         *types.ValidatorSet
	justLoaded bool
}

func roundTrip(vs *types.ValidatorSet) (*types.ValidatorSet, error) {
	bz := wire.BinaryBytes(vs)
	var n int
	var err error
	out := wire.ReadBinary(&types.ValidatorSet{}, bytes.NewReader(bz), 0, &n, &err)
	if err != nil {
		return nil, err
	}
	return out.(*types.ValidatorSet), nil
}

func execute(t *testing.T, prop string, c simrt.Case) (out simrt.Outcome) {
	var cfg config
	json.Unmarshal(c.Config, &cfg)
	out = simrt.Outcome{Faults: map[string]int{}, Probes: map[string]int{}, Evals: map[string]int{}}
	var lg simrt.Log
	viol := func(oracle, key, f string, a ...interface{}) {
		for _, v := range out.Violations {
			if v.Oracle == oracle && v.Key == key {
				return
			}
		}
		out.Violations = append(out.Violations, simrt.Violation{Property: "C16", Oracle: oracle, Key: key, Msg: fmt.Sprintf(f, a...), Step: out.Steps})
	}
	keys := make([]crypto.PrivKeyEd25519, cfg.Pool)
	vals := make([]*types.Validator, cfg.Pool)
	for i := range keys {
		keys[i] = crypto.GenPrivKeyEd25519FromSecret([]byte(fmt.Sprintf("valset-%d-%d", cfg.Seed, i)))
	}
	var initial []*types.Validator
	for i, p := range cfg.Powers {
		vals[i] = types.NewValidator(keys[i].PubKey(), p, false)
		initial = append(initial, vals[i])
	}
	mk := func() *types.ValidatorSet { return types.NewValidatorSet(initial) }
	reps := []*replica{{name: "single", vs: mk()}, {name: "batched", vs: mk()}, {name: "split", vs: mk()}, {name: "persisted", vs: mk()}, {name: "copying", vs: mk()}}
	defer func() {
		if r := recover(); r != nil {
			viol("panic", "panic", "validator-set operation panicked: %v", r)
		}
		out.LogHash = lg.Hash()
	}()
	compare := func(what string) {
		out.Evals["C16.compare"]++
		ref := reps[0]
		for _, rp := range reps[1:] {
			if rp.vs.Size() != ref.vs.Size() {
				viol("membership", what, "after %s: replica %s has %d validators, %s has %d", what, rp.name, rp.vs.Size(), ref.name, ref.vs.Size())
				continue
			}
			if ref.vs.Size() == 0 {
				continue
			}
			key := "live"
			if rp.justLoaded {
				key = "directly-after-persistence"
			}
			if !bytes.Equal(rp.vs.Proposer().Address, ref.vs.Proposer().Address) {
				viol("proposer-disagreement", key+"/"+rp.name, "after %s: replica %q computes proposer %X, replica %q computes %X", what, rp.name, rp.vs.Proposer().Address[:4], ref.name, ref.vs.Proposer().Address[:4])
			}
			if !bytes.Equal(rp.vs.Hash(), ref.vs.Hash()) {
				viol("hash-disagreement", rp.name, "after %s: replica %q has validator-set hash %X, replica %q %X", what, rp.name, rp.vs.Hash()[:4], ref.name, ref.vs.Hash()[:4])
			}
		}
		for _, rp := range reps {
			var prev []byte
			var tot int64
			for i, v := range rp.vs.Validators {
				if i > 0 && bytes.Compare(prev, v.Address) >= 0 {
					viol("unsorted", rp.name, "after %s: replica %q not strictly sorted by address at %d", what, rp.name, i)
				}
				prev = v.Address
				tot += v.VotingPower
			}
			if tot != rp.vs.TotalVotingPower() {
				viol("total-power", rp.name, "after %s: replica %q reports total power %d, sum is %d", what, rp.name, rp.vs.TotalVotingPower(), tot)
			}
		}
		if reps[0].vs.Size() > 0 {
			lg.Add("%s -> %X %X", what, reps[0].vs.Proposer().Address[:4], reps[0].vs.Hash()[:4])
		}
	}
	compare("genesis")
	for _, a := range c.Actions {
		out.Steps++
		switch a.K {
		case "inc":
			k := a.A
			if k < 1 || reps[0].vs.Size() == 0 {
				continue
			}
			for i := int64(0); i < k; i++ {
				reps[0].vs.IncrementAccum(1)
			}
			reps[1].vs.IncrementAccum(k)
			if k > 1 {
				out.Faults["batched_increment"]++
			}
			k1 := a.B % (k + 1)
			if k1 > 0 {
				reps[2].vs.IncrementAccum(k1)
			}
			if k-k1 > 0 {
				reps[2].vs.IncrementAccum(k - k1)
			}
			for i := int64(0); i < k; i++ {
				reps[3].vs.IncrementAccum(1)
			}
			reps[3].justLoaded = false
			// copy-on-increment as the round state machine does
			cp := reps[4].vs.Copy()
			cp.IncrementAccum(k)
			reps[4].vs = cp
			compare(fmt.Sprintf("inc(%d)", k))
		case "add", "update", "remove":
			if a.N < 0 || a.N >= cfg.Pool {
				continue
			}
			out.Faults["set_change_"+a.K]++
			for _, rp := range reps {
				switch a.K {
				case "add":
					rp.vs.Add(types.NewValidator(keys[a.N].PubKey(), a.A, false))
				case "update":
					_, cur := rp.vs.GetByAddress(keys[a.N].PubKey().Address())
					if cur != nil {
						cur.VotingPower = a.A
						rp.vs.Update(cur)
					}
				case "remove":
					if rp.vs.Size() > 1 {
						rp.vs.Remove(keys[a.N].PubKey().Address())
					}
				}
			}
			if a.C == 0 {
				compare(a.K)
			} else {
				out.Faults["unobserved_step"]++
			}
		case "persist":
			out.Faults["persistence_round_trip"]++
			n, err := roundTrip(reps[3].vs)
			if err != nil {
				viol("persistence", "decode", "validator set does not survive a wire round trip: %v", err)
				continue
			}
			reps[3].vs = n
			reps[3].justLoaded = true
			if a.C == 0 {
				compare("persist")
			} else {
				out.Faults["unobserved_step"]++
			}
		case "copymut":
			if reps[0].vs.Size() == 0 {
				continue
			}
			out.Evals["C16.copy-independence"]++
			orig := reps[0].vs
			h0, p0 := orig.Hash(), orig.Proposer().Address
			cp := orig.Copy()
			cp.IncrementAccum(a.A)
			if a.N < cfg.Pool {
				cp.Add(types.NewValidator(keys[a.N].PubKey(), 7, false))
				cp.Remove(cp.Validators[0].Address)
			}
			if !bytes.Equal(h0, orig.Hash()) || !bytes.Equal(p0, orig.Proposer().Address) {
				viol("copy-not-independent", "copy", "mutating a copy changed the set it was copied from")
			}
		case "fair":
			vs := mk()
			tot := vs.TotalVotingPower()
			if tot > 3000 || tot <= 0 {
				continue
			}
			out.Evals["C16.fairness-window"]++
			for i := int64(0); i < a.A; i++ {
				vs.IncrementAccum(1)
			}
			cnt := map[string]int64{}
			for i := int64(0); i < tot; i++ {
				cnt[string(vs.Proposer().Address)]++
				vs.IncrementAccum(1)
			}
			for _, v := range vs.Validators {
				if cnt[string(v.Address)] != v.VotingPower {
					viol("unfair-window", "window", "in %d consecutive selections validator %X with power %d was selected %d times (offset %d)", tot, v.Address[:4], v.VotingPower, cnt[string(v.Address)], a.A)
					break
				}
			}
		}
	}
	out.Nontrivial = out.Faults["batched_increment"]+out.Faults["persistence_round_trip"] > 0
	out.Sample = map[string]interface{}{"powers": cfg.Powers, "ops": len(c.Actions), "first_ops": firstOps(c.Actions, 12)}
	return out
}

func firstOps(as []simrt.Action, n int) []string {
	var r []string
	for i, a := range as {
		if i >= n {
			break
		}
		r = append(r, a.String())
	}
	return r
}

func TestWorker(t *testing.T) {
	simrt.WorkerMain(t, simrt.Engine{Name: "valsetsim", Generate: generate, Execute: execute})
}

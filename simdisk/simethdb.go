package simdisk

import (
	"bytes"
	"fmt"

	"github.com/dappledger/AnnChain/eth/ethdb"
	lerrors "github.com/syndtr/goleveldb/leveldb/errors"
)

// EthDB implements the in-tree ethdb.Database over a Store.
type EthDB struct {
	s    *Store
	life *Life
}

var _ ethdb.Database = (*EthDB)(nil)

func NewEthDB(s *Store, life *Life) *EthDB { return &EthDB{s: s, life: life} }

func (d *EthDB) Put(key, value []byte) error {
	if err := d.life.BeforeWrite(fmt.Sprintf("ethdb:%s put %s", d.s.Name, keyStr(key))); err != nil {
		return err
	}
	d.s.put(key, value)
	return nil
}

func (d *EthDB) Delete(key []byte) error {
	if err := d.life.BeforeWrite(fmt.Sprintf("ethdb:%s del %s", d.s.Name, keyStr(key))); err != nil {
		return err
	}
	d.s.del(key)
	return nil
}

func (d *EthDB) Get(key []byte) ([]byte, error) {
	v, ok := d.s.get(key)
	if !ok {
		return nil, lerrors.ErrNotFound
	}
	return v, nil
}

func (d *EthDB) Has(key []byte) (bool, error) {
	_, ok := d.s.get(key)
	return ok, nil
}

// GetWithPrefix mirrors LDBDatabase.GetWithPrefix: iterate keys with the
// prefix in byte order, optionally starting strictly after lastKey (which must exist).
func (d *EthDB) GetWithPrefix(prefix, lastKey []byte, limit uint32, cutLen int) ([]*ethdb.KVResult, error) {
	var results []*ethdb.KVResult
	keys := d.s.SortedKeys()
	var pk []string
	for _, k := range keys {
		if bytes.HasPrefix([]byte(k), prefix) {
			pk = append(pk, k)
		}
	}
	start := 0
	if len(lastKey) != 0 {
		found := -1
		for i, k := range pk {
			if k == string(lastKey) {
				found = i
				break
			}
		}
		if found < 0 {
			return results, lerrors.ErrNotFound
		}
		start = found + 1
	}
	var count uint32
	for _, k := range pk[start:] {
		v, _ := d.s.get([]byte(k))
		results = append(results, ethdb.NewKVResult([]byte(k)[cutLen:], v))
		count++
		if count >= limit {
			break
		}
	}
	return results, nil
}

func (d *EthDB) Close() {}

func (d *EthDB) NewBatch() ethdb.Batch { return &ethBatch{d: d} }

type ethBatch struct {
	d    *EthDB
	ops  []op
	size int
}

func (b *ethBatch) Put(key, value []byte) error {
	b.ops = append(b.ops, op{false, append([]byte{}, key...), append([]byte{}, value...)})
	b.size += len(value)
	return nil
}

func (b *ethBatch) Delete(key []byte) error {
	b.ops = append(b.ops, op{true, append([]byte{}, key...), nil})
	b.size++
	return nil
}

func (b *ethBatch) ValueSize() int { return b.size }

func (b *ethBatch) Write() error {
	var first []byte
	if len(b.ops) > 0 {
		first = b.ops[0].k
	}
	if err := b.d.life.BeforeWrite(fmt.Sprintf("ethdb:%s batch[%d] %s", b.d.s.Name, len(b.ops), keyStr(first))); err != nil {
		return err
	}
	b.d.s.mu.Lock()
	for _, o := range b.ops {
		if o.del {
			delete(b.d.s.m, string(o.k))
		} else {
			b.d.s.m[string(o.k)] = o.v
		}
	}
	b.d.s.mu.Unlock()
	return nil
}

func (b *ethBatch) Reset() { b.ops = b.ops[:0]; b.size = 0 }

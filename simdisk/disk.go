// Package simdisk is the simulated durable storage of a node: ordered
// in-memory key-value stores behind the repository's dbm.DB and ethdb.Database
// interfaces, with a per-incarnation write counter, crash arming ("die before
// the k-th write") and error injection. Crash model = process death: every
// write issued before the crash point survives, nothing after it executes.
package simdisk

import (
	"fmt"
	"sort"
	"sync"
)

// Life is the crash controller of one incarnation of one node. All durable
// write sites (simulated databases, WAL/signer-file fault points) call
// BeforeWrite; once the incarnation is dead no write of it ever takes effect
// again and the writing goroutine is parked for good.
type Life struct {
	mu      sync.Mutex
	Name    string
	dead    bool
	Reason  string
	writes  int
	armAt   int            // die before write number armAt (0 = not armed)
	errAt   map[int]string // inject an error at write number k
	logOn   bool
	log     []string
	OnDeath func(reason string)
	park    func()
}

// CrashPanic is the value a goroutine of a dead incarnation unwinds with. The
// unwinding runs deferred unlocks (so that no sibling goroutine blocks on a
// mutex forever, which synctest could not see as durable); every durable write
// attempted on the way out panics again before it takes effect.
type CrashPanic struct{ Reason string }

func (c CrashPanic) String() string { return "simulated process death: " + c.Reason }

// NewLife creates the crash controller of an incarnation. term ends the calling
// goroutine of a dead incarnation; nil means panic(CrashPanic).
func NewLife(name string, term func()) *Life {
	l := &Life{Name: name, errAt: map[int]string{}}
	if term == nil {
		term = func() { panic(CrashPanic{l.Reason}) }
	}
	l.park = term
	return l
}

func (l *Life) Dead() bool {
	l.mu.Lock()
	defer l.mu.Unlock()
	return l.dead
}

func (l *Life) Writes() int {
	l.mu.Lock()
	defer l.mu.Unlock()
	return l.writes
}

// Kill marks the incarnation dead (process killed "now").
func (l *Life) Kill(reason string) {
	l.mu.Lock()
	if l.dead {
		l.mu.Unlock()
		return
	}
	l.dead = true
	l.Reason = reason
	cb := l.OnDeath
	l.mu.Unlock()
	if cb != nil {
		cb(reason)
	}
}

// ArmCrash makes the incarnation die immediately before its k-th write from now (k>=1).
func (l *Life) ArmCrash(k int) {
	l.mu.Lock()
	l.armAt = l.writes + k
	l.mu.Unlock()
}

// ArmCrashAbs arms the crash at absolute write number n of this incarnation.
func (l *Life) ArmCrashAbs(n int) {
	l.mu.Lock()
	l.armAt = n
	l.mu.Unlock()
}

func (l *Life) Disarm() {
	l.mu.Lock()
	l.armAt = 0
	l.mu.Unlock()
}

func (l *Life) ArmError(k int, msg string) {
	l.mu.Lock()
	l.errAt[l.writes+k] = msg
	l.mu.Unlock()
}

func (l *Life) LogWrites(on bool) {
	l.mu.Lock()
	l.logOn = on
	l.mu.Unlock()
}

func (l *Life) WriteLog() []string {
	l.mu.Lock()
	defer l.mu.Unlock()
	return append([]string(nil), l.log...)
}

// BeforeWrite is called before every durable write. It returns an error to
// inject an I/O failure, or never returns when the incarnation is (or just
// became) dead.
func (l *Life) BeforeWrite(desc string) error {
	if l == nil {
		return nil
	}
	l.mu.Lock()
	if l.dead {
		l.mu.Unlock()
		l.park()
		return nil
	}
	l.writes++
	n := l.writes
	if l.logOn {
		l.log = append(l.log, desc)
	}
	if l.armAt != 0 && n == l.armAt {
		l.dead = true
		l.Reason = fmt.Sprintf("crash before write %d (%s)", n, desc)
		cb := l.OnDeath
		reason := l.Reason
		l.mu.Unlock()
		if cb != nil {
			cb(reason)
		}
		l.park()
		return nil
	}
	if msg, ok := l.errAt[n]; ok {
		delete(l.errAt, n)
		l.mu.Unlock()
		return fmt.Errorf("injected I/O error: %s", msg)
	}
	l.mu.Unlock()
	return nil
}

// Store is the durable content of one named database. It survives incarnations.
type Store struct {
	mu   sync.Mutex
	Name string
	m    map[string][]byte
}

func NewStore(name string) *Store { return &Store{Name: name, m: map[string][]byte{}} }

func (s *Store) get(k []byte) ([]byte, bool) {
	s.mu.Lock()
	defer s.mu.Unlock()
	v, ok := s.m[string(k)]
	if !ok {
		return nil, false
	}
	return append([]byte{}, v...), true
}

func (s *Store) put(k, v []byte) {
	s.mu.Lock()
	s.m[string(k)] = append([]byte{}, v...)
	s.mu.Unlock()
}

func (s *Store) del(k []byte) {
	s.mu.Lock()
	delete(s.m, string(k))
	s.mu.Unlock()
}

func (s *Store) Len() int {
	s.mu.Lock()
	defer s.mu.Unlock()
	return len(s.m)
}

// SortedKeys returns all keys in byte order.
func (s *Store) SortedKeys() []string {
	s.mu.Lock()
	ks := make([]string, 0, len(s.m))
	for k := range s.m {
		ks = append(ks, k)
	}
	s.mu.Unlock()
	sort.Strings(ks)
	return ks
}

// Snapshot copies the whole store (used by enumerations that rewind a disk).
func (s *Store) Snapshot() map[string][]byte {
	s.mu.Lock()
	defer s.mu.Unlock()
	c := make(map[string][]byte, len(s.m))
	for k, v := range s.m {
		c[k] = append([]byte{}, v...)
	}
	return c
}

func (s *Store) Restore(c map[string][]byte) {
	s.mu.Lock()
	s.m = make(map[string][]byte, len(c))
	for k, v := range c {
		s.m[k] = append([]byte{}, v...)
	}
	s.mu.Unlock()
}

// Disk is the set of named stores of one node.
type Disk struct {
	mu     sync.Mutex
	stores map[string]*Store
}

func NewDisk() *Disk { return &Disk{stores: map[string]*Store{}} }

func (d *Disk) Store(name string) *Store {
	d.mu.Lock()
	defer d.mu.Unlock()
	s := d.stores[name]
	if s == nil {
		s = NewStore(name)
		d.stores[name] = s
	}
	return s
}

func (d *Disk) Names() []string {
	d.mu.Lock()
	defer d.mu.Unlock()
	ns := make([]string, 0, len(d.stores))
	for n := range d.stores {
		ns = append(ns, n)
	}
	sort.Strings(ns)
	return ns
}

func (d *Disk) Snapshot() map[string]map[string][]byte {
	r := map[string]map[string][]byte{}
	for _, n := range d.Names() {
		r[n] = d.Store(n).Snapshot()
	}
	return r
}

func (d *Disk) Restore(snap map[string]map[string][]byte) {
	d.mu.Lock()
	d.stores = map[string]*Store{}
	d.mu.Unlock()
	for n, c := range snap {
		d.Store(n).Restore(c)
	}
}

package simdisk

import (
	"fmt"

	dbm "github.com/dappledger/AnnChain/gemmill/modules/go-db"
)

// DB implements the repository's dbm.DB over a Store. Like GoLevelDB it has no
// error returns: an injected write error panics the way GoLevelDB's
// PanicCrisis does.
type DB struct {
	s    *Store
	life *Life
}

var _ dbm.DB = (*DB)(nil)

func NewDB(s *Store, life *Life) *DB { return &DB{s: s, life: life} }

func (d *DB) Get(key []byte) []byte {
	v, _ := d.s.get(key)
	return v
}

func (d *DB) before(op string, key []byte) {
	if err := d.life.BeforeWrite(fmt.Sprintf("db:%s %s %s", d.s.Name, op, keyStr(key))); err != nil {
		panic(fmt.Sprintf("Paniced on a Crisis: %v", err))
	}
}

func keyStr(k []byte) string {
	if len(k) > 24 {
		k = k[:24]
	}
	printable := true
	for _, c := range k {
		if c < 0x20 || c > 0x7e {
			printable = false
			break
		}
	}
	if printable {
		return string(k)
	}
	return fmt.Sprintf("%x", k)
}

func (d *DB) Set(key, value []byte)     { d.before("set", key); d.s.put(key, value) }
func (d *DB) SetSync(key, value []byte) { d.before("setsync", key); d.s.put(key, value) }
func (d *DB) Delete(key []byte)         { d.before("del", key); d.s.del(key) }
func (d *DB) DeleteSync(key []byte)     { d.before("delsync", key); d.s.del(key) }
func (d *DB) Close()                    {}
func (d *DB) Print()                    {}

func (d *DB) NewBatch() dbm.Batch { return &batch{d: d} }

type op struct {
	del  bool
	k, v []byte
}

type batch struct {
	d   *DB
	ops []op
}

func (b *batch) Set(key, value []byte) {
	b.ops = append(b.ops, op{false, append([]byte{}, key...), append([]byte{}, value...)})
}
func (b *batch) Delete(key []byte) { b.ops = append(b.ops, op{true, append([]byte{}, key...), nil}) }

// Write applies the batch atomically (one durable write, as in LevelDB).
func (b *batch) Write() {
	var first []byte
	if len(b.ops) > 0 {
		first = b.ops[0].k
	}
	b.d.before(fmt.Sprintf("batch[%d]", len(b.ops)), first)
	b.d.s.mu.Lock()
	for _, o := range b.ops {
		if o.del {
			delete(b.d.s.m, string(o.k))
		} else {
			b.d.s.m[string(o.k)] = o.v
		}
	}
	b.d.s.mu.Unlock()
}

type iter struct {
	s    *Store
	keys []string
	i    int
}

func (d *DB) Iterator() dbm.Iterator { return &iter{s: d.s, keys: d.s.SortedKeys(), i: -1} }
func (it *iter) Next() bool          { it.i++; return it.i < len(it.keys) }
func (it *iter) Key() []byte         { return []byte(it.keys[it.i]) }
func (it *iter) Value() []byte       { v, _ := it.s.get([]byte(it.keys[it.i])); return v }

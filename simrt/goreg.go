package simrt

import (
	"fmt"
	"runtime"
	"runtime/debug"
	"sync"
)

// Owner is whatever a goroutine belongs to (one incarnation of one simulated
// node). Goroutines started through simhook.Go inherit the owner of their
// parent, so every goroutine of a node can be attributed to it: that is how a
// panic becomes "node N died" instead of the end of the simulation, and how a
// crashed incarnation is prevented from ever writing again.
type Owner interface {
	// OnPanic is called on the panicking goroutine after recovery.
	OnPanic(site string, val interface{}, stack []byte)
}

type Registry struct {
	mu      sync.Mutex
	owners  map[uint64]Owner
	Spawned int
}

func NewRegistry() *Registry { return &Registry{owners: map[uint64]Owner{}} }

// GoID returns the id of the calling goroutine.
func GoID() uint64 {
	var buf [64]byte
	n := runtime.Stack(buf[:], false)
	// "goroutine 123 ["
	var id uint64
	for i := len("goroutine "); i < n; i++ {
		c := buf[i]
		if c < '0' || c > '9' {
			break
		}
		id = id*10 + uint64(c-'0')
	}
	return id
}

// Current returns the owner of the calling goroutine (nil for harness goroutines).
func (r *Registry) Current() Owner {
	id := GoID()
	r.mu.Lock()
	o := r.owners[id]
	r.mu.Unlock()
	return o
}

// Go is installed as simhook.GoHook.
func (r *Registry) Go(site string, f func()) {
	r.GoAs(r.Current(), site, f)
}

// GoAs starts f on a new goroutine owned by o.
func (r *Registry) GoAs(o Owner, site string, f func()) {
	r.mu.Lock()
	r.Spawned++
	r.mu.Unlock()
	go func() {
		id := GoID()
		r.mu.Lock()
		if o != nil {
			r.owners[id] = o
		}
		r.mu.Unlock()
		defer func() {
			r.mu.Lock()
			delete(r.owners, id)
			r.mu.Unlock()
		}()
		defer func() {
			if v := recover(); v != nil {
				st := debug.Stack()
				if o != nil {
					o.OnPanic(site, v, st)
				} else {
					// a harness goroutine must not die silently
					panic(fmt.Sprintf("harness goroutine %s panicked: %v\n%s", site, v, st))
				}
			}
		}()
		f()
	}()
}

// ParkForever blocks the calling goroutine durably and for good.
func ParkForever() {
	select {}
}

package simrt

import (
	"encoding/json"
	"fmt"
	"os"
	"strconv"
	"strings"
	"testing"
	"time"
)

func EnvInt(k string, def int) int {
	if v := os.Getenv(k); v != "" {
		if n, err := strconv.Atoi(v); err == nil {
			return n
		}
	}
	return def
}

func KnownSet() map[string]bool {
	m := map[string]bool{}
	for _, k := range strings.Split(os.Getenv("VERIF_KNOWN"), ",") {
		if k = strings.TrimSpace(k); k != "" {
			m[k] = true
		}
	}
	return m
}

// Case is one generated case of a component simulator: a configuration plus an
// operation/fault list, both JSON-serialisable, so that it can be replayed and minimised.
type Case struct {
	Config  json.RawMessage `json:"config"`
	Actions []Action        `json:"actions"`
}

// Outcome of executing a case.
type Outcome struct {
	Violations           []Violation
	Faults               map[string]int
	Probes               map[string]int
	Evals                map[string]int
	States               []string
	LogHash              string
	SimSeconds           float64
	Steps                int
	Nontrivial           bool
	Sample               interface{}
	Cases, DistinctCases int
}

// Engine is what a component simulator provides to the generic worker.
type Engine struct {
	Name string
	// Generate draws a case from the seed (pure function of seed and tier).
	Generate func(seed uint64, prop string) Case
	// Execute runs a case (deterministically) and evaluates the oracles of prop.
	Execute func(t *testing.T, prop string, c Case) Outcome
}

func hasV(vs []Violation, v Violation) bool {
	for _, o := range vs {
		if o.Property == v.Property && o.Oracle == v.Oracle && o.Key == v.Key {
			return true
		}
	}
	return false
}

// WorkerMain implements the batch/replay protocol of the driver for an Engine.
func WorkerMain(t *testing.T, e Engine) {
	mode := os.Getenv("VERIF_MODE")
	if mode == "" {
		t.Skip("worker: VERIF_MODE not set")
	}
	prop := os.Getenv("VERIF_PROP")
	known := KnownSet()
	outPath := os.Getenv("VERIF_OUT")
	if mode == "replay" {
		var rp Replay
		if err := ReadJSON(os.Getenv("VERIF_REPLAY"), &rp); err != nil {
			fmt.Println("REPLAY-ERROR", err)
			os.Exit(2)
		}
		o := e.Execute(t, rp.Property, Case{Config: rp.Config, Actions: rp.Actions})
		res := map[string]interface{}{"log_hash": o.LogHash, "violations": o.Violations, "steps": o.Steps}
		res["reproduced"] = rp.Violation != nil && hasV(o.Violations, *rp.Violation)
		b, _ := json.MarshalIndent(res, "", " ")
		fmt.Println(string(b))
		if outPath != "" {
			os.WriteFile(outPath, b, 0644)
		}
		return
	}
	base := uint64(EnvInt("VERIF_SEED", 1))
	from, to := EnvInt("VERIF_FROM", 0), EnvInt("VERIF_TO", 1)
	deadline := time.Now().Add(time.Duration(EnvInt("VERIF_BUDGET_S", 3600)) * time.Second)
	f, err := os.OpenFile(outPath, os.O_CREATE|os.O_WRONLY|os.O_APPEND, 0644)
	if err != nil {
		fmt.Println("WORKER-ERROR", err)
		os.Exit(2)
	}
	defer f.Close()
	enc := json.NewEncoder(f)
	for i := from; i < to; i++ {
		if time.Now().After(deadline) {
			break
		}
		seed := Mix(base, prop+"/"+e.Name, uint64(i))
		fmt.Fprintf(os.Stderr, "run %d seed %d\n", i, seed)
		c := e.Generate(seed, prop)
		o := e.Execute(t, prop, c)
		res := RunResult{Seed: seed, Index: i, Steps: o.Steps, SimSeconds: o.SimSeconds, Faults: o.Faults, Probes: o.Probes, States: o.States,
			TraceHash: HashStrings(string(c.Config), HashActions(c.Actions)), LogHash: o.LogHash, OracleEval: o.Evals, Nontrivial: o.Nontrivial, Cases: o.Cases, DistinctCases: o.DistinctCases}
		if i-from < 2 && o.Sample != nil {
			sm, _ := json.Marshal(o.Sample)
			res.Sample = sm
		}
		for _, v := range o.Violations {
			kk := v.Property + "/" + v.Oracle + "/" + v.Key
			if v.Property != prop && !known[kk] {
				if res.Extra == nil {
					res.Extra = map[string]string{}
				}
				res.Extra["other:"+kk] = v.Msg
				continue
			}
			res.Violations = append(res.Violations, v)
			if known[kk] || res.Replay != nil {
				continue
			}
			vv := v
			test := func(cand []Action) bool {
				return hasV(e.Execute(t, prop, Case{Config: c.Config, Actions: cand}).Violations, vv)
			}
			min := c.Actions
			if os.Getenv("VERIF_MINIMIZE") != "0" && len(c.Actions) > 1 && test(c.Actions) {
				min, _ = DDMin(c.Actions, EnvInt("VERIF_DDMIN_BUDGET", 200), test)
			}
			a := e.Execute(t, prop, Case{Config: c.Config, Actions: min})
			b := e.Execute(t, prop, Case{Config: c.Config, Actions: min})
			note := ""
			if !(hasV(a.Violations, vv) && hasV(b.Violations, vv) && a.LogHash == b.LogHash) {
				note = "WARNING: minimised case did not reproduce identically twice; full case kept"
				min = c.Actions
			}
			res.Replay = &Replay{Engine: e.Name, Property: prop, Seed: seed, Config: c.Config, Actions: min, Violation: &vv, LogHash: a.LogHash, Note: note}
		}
		enc.Encode(res)
	}
}

// Package simrt is the repository-independent core of the simulator: the
// seeded choice source, the goroutine registry behind simhook.Go, panic capture,
// the synctest bubble runner, trace/result types, ddmin and evidence writing.
package simrt

import (
	"math/rand/v2"
)

// Rand is the only source of randomness of a run. Every choice of the
// scheduler, the fault injector and the workload generator is drawn from it,
// so a run is a pure function of (seed, code).
type Rand struct {
	r     *rand.Rand
	Draws int
}

func NewRand(seed uint64) *Rand {
	return &Rand{r: rand.New(rand.NewPCG(seed, seed^0x9e3779b97f4a7c15))}
}

// Mix derives the seed of run i of a batch.
func Mix(base uint64, salt string, i uint64) uint64 {
	h := base ^ 0xcbf29ce484222325
	for _, c := range []byte(salt) {
		h = (h ^ uint64(c)) * 0x100000001b3
	}
	h ^= i + 0x9e3779b97f4a7c15 + (h << 6) + (h >> 2)
	h *= 0xff51afd7ed558ccd
	h ^= h >> 33
	return h
}

func (r *Rand) Intn(n int) int {
	r.Draws++
	if n <= 1 {
		return 0
	}
	return r.r.IntN(n)
}

func (r *Rand) Int63n(n int64) int64 {
	r.Draws++
	if n <= 1 {
		return 0
	}
	return r.r.Int64N(n)
}

func (r *Rand) Uint64() uint64 { r.Draws++; return r.r.Uint64() }

// Chance is true with probability num/den.
func (r *Rand) Chance(num, den int) bool { return r.Intn(den) < num }

// Pick returns one of the weights' indices with probability proportional to its weight.
func (r *Rand) Pick(weights []int) int {
	tot := 0
	for _, w := range weights {
		tot += w
	}
	if tot <= 0 {
		return 0
	}
	x := r.Intn(tot)
	for i, w := range weights {
		if x < w {
			return i
		}
		x -= w
	}
	return len(weights) - 1
}

func (r *Rand) Bytes(n int) []byte {
	b := make([]byte, n)
	for i := range b {
		b[i] = byte(r.Intn(256))
	}
	return b
}

func (r *Rand) Perm(n int) []int {
	p := make([]int, n)
	for i := range p {
		p[i] = i
	}
	for i := n - 1; i > 0; i-- {
		j := r.Intn(i + 1)
		p[i], p[j] = p[j], p[i]
	}
	return p
}

package simrt

import (
	"crypto/sha256"
	"encoding/hex"
	"encoding/json"
	"fmt"
	"os"
	"sort"
	"strings"
	"testing"
	"testing/synctest"
	"time"
)

// Action is one decision of the simulator: a delivery, a timeout release, a
// clock advance, a crash, a restart, a Byzantine emission, an injected input.
// A run is a pure function of (Config, []Action): seeds only produce action
// lists, replay files carry the list itself so that minimised lists replay.
type Action struct {
	K string `json:"k"`           // kind
	N int    `json:"n,omitempty"` // node / validator
	I string `json:"i,omitempty"` // item id (content derived) or free text
	A int64  `json:"a,omitempty"`
	B int64  `json:"b,omitempty"`
	C int64  `json:"c,omitempty"`
	S string `json:"s,omitempty"`
}

func (a Action) String() string {
	var sb strings.Builder
	sb.WriteString(a.K)
	sb.WriteString(fmt.Sprintf("{n:%d", a.N))
	if a.I != "" {
		sb.WriteString(",i:" + a.I)
	}
	if a.A != 0 || a.B != 0 || a.C != 0 {
		sb.WriteString(fmt.Sprintf(",a:%d,b:%d,c:%d", a.A, a.B, a.C))
	}
	if a.S != "" {
		sb.WriteString(",s:" + a.S)
	}
	sb.WriteString("}")
	return sb.String()
}

// Violation is what a check reports.
type Violation struct {
	Property string `json:"property"`
	Oracle   string `json:"oracle"`
	Msg      string `json:"msg"`
	Step     int    `json:"step"`
	// Key identifies the failing input / call site class for known-findings matching.
	Key string `json:"key,omitempty"`
}

// Replay is the replay file format.
type Replay struct {
	Engine    string          `json:"engine"`
	Property  string          `json:"property"`
	Seed      uint64          `json:"seed"`
	Config    json.RawMessage `json:"config"`
	Actions   []Action        `json:"actions"`
	Violation *Violation      `json:"violation,omitempty"`
	LogHash   string          `json:"log_hash,omitempty"`
	Note      string          `json:"note,omitempty"`
}

// RunResult is what one simulated run returns to the batch driver.
type RunResult struct {
	Seed       uint64            `json:"seed"`
	Index      int               `json:"index"`
	Steps      int               `json:"steps"`
	SimSeconds float64           `json:"sim_seconds"`
	Faults     map[string]int    `json:"faults,omitempty"`
	Probes     map[string]int    `json:"probes,omitempty"`
	States     []string          `json:"states,omitempty"` // abstract states visited (hashed)
	TraceHash  string            `json:"trace_hash"`
	LogHash    string            `json:"log_hash"`
	Nontrivial bool              `json:"nontrivial"`
	OracleEval map[string]int    `json:"oracle_eval,omitempty"`
	Violations []Violation       `json:"violations,omitempty"`
	Replay     *Replay           `json:"replay,omitempty"`
	Sample     json.RawMessage   `json:"sample,omitempty"`
	Extra      map[string]string `json:"extra,omitempty"`
	// enumerating engines: one run covers many (case, fault point) pairs
	Cases         int `json:"cases,omitempty"`
	DistinctCases int `json:"distinct_cases,omitempty"`
}

// Log is the event log of a run; only its hash is kept. Logging never draws
// from the PRNG and never reads a clock.
type Log struct {
	h     [32]byte
	Lines int
	Keep  bool
	Text  []string
}

func (l *Log) Add(format string, args ...interface{}) {
	s := fmt.Sprintf(format, args...)
	x := sha256.New()
	x.Write(l.h[:])
	x.Write([]byte(s))
	copy(l.h[:], x.Sum(nil))
	l.Lines++
	if l.Keep {
		l.Text = append(l.Text, s)
	}
}

func (l *Log) Hash() string { return hex.EncodeToString(l.h[:8]) }

// Counter is a string->int accumulator with deterministic JSON output.
type Counter map[string]int

func (c Counter) Inc(k string)        { c[k]++ }
func (c Counter) Add(k string, n int) { c[k] += n }
func (c Counter) Merge(o map[string]int) {
	for k, v := range o {
		c[k] += v
	}
}

func SortedKeys(m map[string]int) []string {
	ks := make([]string, 0, len(m))
	for k := range m {
		ks = append(ks, k)
	}
	sort.Strings(ks)
	return ks
}

// Bubble runs f inside a synctest bubble and survives the end-of-bubble
// deadlock panic that leftover (parked) goroutines of crashed incarnations
// cause. It reports any other panic of the root goroutine.
func Bubble(t *testing.T, f func()) (rootPanic interface{}) {
	defer func() {
		if v := recover(); v != nil {
			s := fmt.Sprint(v)
			if strings.Contains(s, "deadlock: main bubble goroutine has exited") {
				return
			}
			rootPanic = v
		}
	}()
	synctest.Test(t, func(t *testing.T) {
		f()
	})
	return nil
}

func HashStrings(ss ...string) string {
	x := sha256.New()
	for _, s := range ss {
		x.Write([]byte(s))
		x.Write([]byte{0})
	}
	return hex.EncodeToString(x.Sum(nil)[:8])
}

func HashActions(as []Action) string {
	x := sha256.New()
	for _, a := range as {
		x.Write([]byte(a.String()))
		x.Write([]byte{'\n'})
	}
	return hex.EncodeToString(x.Sum(nil)[:8])
}

func WriteJSON(path string, v interface{}) error {
	b, err := json.MarshalIndent(v, "", " ")
	if err != nil {
		return err
	}
	tmp := path + ".tmp"
	if err := os.WriteFile(tmp, b, 0644); err != nil {
		return err
	}
	return os.Rename(tmp, path)
}

func ReadJSON(path string, v interface{}) error {
	b, err := os.ReadFile(path)
	if err != nil {
		return err
	}
	return json.Unmarshal(b, v)
}

// DDMin minimises an action list while test (which must be deterministic)
// keeps reporting the failure. budget bounds the number of test executions.
func DDMin(actions []Action, budget int, test func([]Action) bool) ([]Action, int) {
	used := 0
	deadline := time.Now().Add(time.Duration(EnvInt("VERIF_DDMIN_SECONDS", 90)) * time.Second)
	inner := test
	test = func(c []Action) bool {
		if time.Now().After(deadline) {
			return false
		}
		fmt.Fprintf(os.Stderr, "ddmin candidate %d len %d\n", used, len(c))
		return inner(c)
	}
	cur := append([]Action(nil), actions...)
	n := 2
	for len(cur) >= 2 && used < budget && time.Now().Before(deadline) {
		chunk := (len(cur) + n - 1) / n
		reduced := false
		for start := 0; start < len(cur) && used < budget; start += chunk {
			end := start + chunk
			if end > len(cur) {
				end = len(cur)
			}
			cand := append(append([]Action(nil), cur[:start]...), cur[end:]...)
			used++
			if test(cand) {
				cur = cand
				if n > 2 {
					n--
				}
				reduced = true
				break
			}
		}
		if !reduced {
			if chunk <= 1 {
				break
			}
			n *= 2
			if n > len(cur) {
				n = len(cur)
			}
		}
	}
	return cur, used
}

module verif

go 1.26.8

require (
	github.com/anishathalye/porcupine v1.3.0
	github.com/dappledger/AnnChain v0.0.0
	github.com/ethereum/go-ethereum v1.8.27
	pgregory.net/rapid v1.3.0
)

replace github.com/dappledger/AnnChain => /var/tmp/verif-scratch/PLACEHOLDER/repo
